// Shared by sol_rt.cc (C05) and solread_mon.cc (C14): a solution description, independent
// text/binary .sol encoders (format transcribed from the AMPL .sol layout), and a
// recording/monitoring SOLHandler for mp::SOLReader2.
#ifndef SOLGEN_H_
#define SOLGEN_H_
#include "vfh.h"
#include "mp/sol-reader2.h"
#include "mp/sol-reader2.hpp"
#include <map>

namespace sg {

struct Suf {
  int kind = 0;             // 0..3 item class | 4 float | ... (as written in the header)
  std::string name, table;  // table without trailing newline; may contain '\n'
  std::vector<std::pair<int, double>> vals;  // for int suffixes values are integral
  int namelen_delta = 0, tablen_delta = 0;   // hostile: declared name/table length differs from the valid one (size + 1) by this much
};

struct Sol {
  std::vector<std::string> msg;      // message lines (no '\n' inside)
  int nbs = 0;                       // leading backspaces in the first line
  std::vector<long> options;         // options_[0..k-1] (k = 0 or 3..9), without the leading count
  bool vbtol = false; double vbtol_val = 0;
  int ncons = 0, nvars = 0;          // sizes written in the options block
  std::vector<double> duals, primals;
  bool have_objno = true; int objno = 0; int code = 0; bool have_code = true;
  std::vector<Suf> sufs;
};

inline std::string num16(double d) {  // what a correct writer prints for text
  char b[64]; snprintf(b, sizeof b, "%.17g", d); return b;
}

// ---- text encoder -----------------------------------------------------------
inline std::string encode_text(const Sol& s, bool crlf = false) {
  std::string nl = crlf ? "\r\n" : "\n", o;
  bool first = true;
  for (auto& l : s.msg) {
    if (first) o += std::string(s.nbs, '\b');
    first = false;
    o += (l.empty() ? std::string(" ") : l) + nl;
  }
  o += nl;
  if (!s.options.empty()) {
    o += "Options" + nl;
    o += std::to_string(s.options.size() + (s.vbtol ? 2 : 0)) + nl;   // in the vbtol form the count exceeds the listed options by 2
    for (long v : s.options) o += std::to_string(v) + nl;
    o += std::to_string(s.ncons) + nl + std::to_string(s.duals.size()) + nl + std::to_string(s.nvars) + nl + std::to_string(s.primals.size()) + nl;
    if (s.vbtol) o += num16(s.vbtol_val) + nl;
  }
  for (double d : s.duals) o += num16(d) + nl;
  for (double d : s.primals) o += num16(d) + nl;
  if (s.have_objno) {
    o += "objno " + std::to_string(s.objno);
    if (s.have_code) o += " " + std::to_string(s.code);
    o += nl;
    for (auto& sf : s.sufs) {
      int tablines = sf.table.empty() ? 0 : 1 + (int)std::count(sf.table.begin(), sf.table.end(), '\n');
      o += "suffix " + std::to_string(sf.kind) + " " + std::to_string(sf.vals.size()) + " " + std::to_string((long)sf.name.size() + 1 + sf.namelen_delta) + " " +
           std::to_string(sf.table.empty() ? 0 : (long)sf.table.size() + 1 + sf.tablen_delta) + " " + std::to_string(tablines) + nl;
      o += sf.name + nl;
      if (!sf.table.empty()) {
        std::string t = sf.table;
        if (crlf) { std::string t2; for (char c : t) { if (c == '\n') t2 += "\r"; t2 += c; } t = t2; }
        o += t + nl;
      }
      for (auto& v : sf.vals) {
        o += std::to_string(v.first) + " ";
        if (sf.kind & 4) o += num16(v.second); else o += std::to_string((long long)v.second);
        o += nl;
      }
    }
  }
  return o;
}

// ---- binary encoder (Fortran unformatted records) -------------------------------
inline void rec(std::string& o, const std::string& data) {
  unsigned L = (unsigned)data.size();
  o.append((const char*)&L, 4); o += data; o.append((const char*)&L, 4);
}
template <class T> inline void put(std::string& o, T v) { o.append((const char*)&v, sizeof v); }

inline std::string encode_binary(const Sol& s) {
  std::string o;
  rec(o, "binary");
  bool first = true;
  for (auto& l : s.msg) {
    std::string t = (first ? std::string(s.nbs, '\b') : "") + (l.empty() ? " " : l);
    first = false;
    rec(o, t);
  }
  rec(o, "");
  if (!s.options.empty()) {
    std::string d = "Options";
    put<int>(d, (int)s.options.size() + (s.vbtol ? 2 : 0));
    for (long v : s.options) put<int>(d, (int)v);
    put<int>(d, s.ncons); put<int>(d, (int)s.duals.size()); put<int>(d, s.nvars); put<int>(d, (int)s.primals.size());
    if (s.vbtol) put<double>(d, s.vbtol_val);
    rec(o, d);
  }
  { std::string d; for (double v : s.duals) put<double>(d, v); rec(o, d); }
  { std::string d; for (double v : s.primals) put<double>(d, v); rec(o, d); }
  if (s.have_objno) {
    std::string d; put<int>(d, s.objno); if (s.have_code) put<int>(d, s.code); rec(o, d);
    if (s.have_code)
      for (auto& sf : s.sufs) {
        std::string r = "\nSuffix\n";
        put<int>(r, sf.kind); put<int>(r, (int)sf.vals.size()); put<int>(r, (int)sf.name.size() + 1 + sf.namelen_delta);
        put<int>(r, sf.table.empty() ? 0 : (int)sf.table.size() + 1 + sf.tablen_delta);
        r += sf.name; r += '\0';
        if (!sf.table.empty()) { r += sf.table; r += '\0'; }
        for (auto& v : sf.vals) { put<int>(r, v.first); if (sf.kind & 4) put<double>(r, v.second); else put<int>(r, (int)v.second); }
        rec(o, r);
      }
  }
  return o;
}

// ---- random valid solution -------------------------------------------------------
inline std::string rand_line(vf::Rng& r, int maxlen, bool any_print) {
  int n = r.chance(1, 30) ? r.range(500, maxlen) : r.range(0, 60);
  std::string s;
  for (int i = 0; i < n; ++i) s += any_print ? (char)r.range(32, 126) : "abc XYZ:;,.=-+0123456789"[r.below(23)];
  return s;
}

inline Sol gen(vf::Rng& r, bool nonfinite, int maxline = 700) {
  Sol s;
  int nm = r.range(1, 4);
  for (int i = 0; i < nm; ++i) s.msg.push_back(rand_line(r, maxline, true));
  if (s.msg[0].empty() || s.msg[0][0] == ' ') s.msg[0] = "M" + s.msg[0];
  // the last line must not end in spaces for the binary form (reader strips them) - keep both forms comparable
  for (auto& l : s.msg) while (!l.empty() && l.back() == ' ') l.pop_back();
  if (s.msg[0].empty()) s.msg[0] = "solver 1.0: optimal";
  if (r.chance(1, 5)) s.nbs = r.range(1, 5);
  int k = r.chance(1, 8) ? 0 : r.range(3, 9);
  for (int i = 0; i < k; ++i) s.options.push_back(r.range(0, 5));
  if (k >= 3 && k <= 7 && r.chance(1, 6)) { s.options[1] = 3; s.vbtol = true; s.vbtol_val = vf::hostile_double(r, false); }  // k listed, count k+2
  else if (k >= 2 && s.options[1] == 3) s.options[1] = 1;
  s.ncons = r.chance(1, 6) ? 0 : r.range(1, 12);
  s.nvars = r.chance(1, 10) ? 0 : r.range(1, 14);
  bool full = s.options.empty();   // without an options block only full vectors are expressible
  if (full || r.chance(3, 4)) for (int i = 0; i < s.ncons; ++i) s.duals.push_back(vf::hostile_double(r, nonfinite && r.chance(1, 4)));
  if (full || r.chance(5, 6)) for (int i = 0; i < s.nvars; ++i) s.primals.push_back(vf::hostile_double(r, nonfinite && r.chance(1, 4)));
  s.objno = r.range(-1, 5);
  s.code = r.chance(1, 10) ? r.range(-200, 999) : r.range(0, 999);
  int ns = r.range(0, 3);
  for (int i = 0; i < ns; ++i) {
    Suf f; int cls = r.range(0, 3); bool fl = r.chance(1, 2);
    f.kind = cls | (fl ? 4 : 0);
    static const char* names[] = {"sstatus", "iis", "relax", "x", "a_rather_long_suffix_name_0123456789", "up", "priority"};
    f.name = names[r.below(7)] + std::string(i ? std::to_string(i) : "");
    if (r.chance(1, 3)) { int tl = r.range(1, 3); for (int t = 0; t < tl; ++t) { if (t) f.table += "\n"; f.table += std::to_string(t) + "\tbas" + std::to_string(t) + "\tsome text"; } }
    int nmax = cls == 0 ? s.nvars : cls == 1 ? s.ncons : cls == 2 ? 3 : 1;
    for (int j = 0; j < nmax; ++j) if (r.chance(1, 2)) f.vals.push_back({j, fl ? vf::hostile_double(r, nonfinite && r.chance(1, 6)) : r.chance(1, 8) ? (double)(r.chance(1, 2) ? 2147483647 - (int)r.below(2) : -2147483647 - 1 + (int)r.below(2)) : (double)r.range(-5, 9)});   // int suffix values incl. INT_MAX, INT_MIN
    s.sufs.push_back(f);
  }
  return s;
}

// ---- recording / monitoring handler --------------------------------------------------
struct RecVec { int offered = 0, taken = 0, final_size = 0, final_rr = 0; bool error_swallowed = false; std::vector<double> v; std::vector<int> idx; };
struct RecSuf : RecVec { int kind = 0; std::string name, table; bool isdbl = false; };

struct Handler : mp::SOLHandler {
  mp::NLHeader hdr; int policy = 0;  // 0 read all, 1 read some, 2 read none
  vf::Rng* rng = nullptr;
  std::string msg; int nbs = -1, n_msg = 0;
  bool have_opts = false; AMPLOptions opts; int stop_at_options = 0;
  RecVec dual, primal; int n_dual = 0, n_primal = 0;
  int objno = -99, code = -99999, n_objno = 0, n_code = 0;
  std::vector<RecSuf> sufs;
  std::vector<std::string> order;

  mp::NLHeader Header() const { return hdr; }
  void OnSolveMessage(const char* s, int nb) { msg = s; nbs = nb; ++n_msg; order.push_back("msg"); }
  int OnAMPLOptions(const AMPLOptions& o) { have_opts = true; opts = o; order.push_back("opts"); return stop_at_options; }
  template <class R, class F> void drain(R& rd, RecVec& rv, F store) {
    rv.offered = rd.Size();
    int want = policy == 0 ? rv.offered : policy == 2 ? 0 : (rv.offered ? (int)rng->below(rv.offered) : 0);
    bool saw_error = false;
    while (rd.Size() && rv.taken < want) {
      auto v = rd.ReadNext(); ++rv.taken;
      if (rd.ReadResult() != NLW2_SOLRead_OK) saw_error = true; else { if (saw_error) rv.error_swallowed = true; store(v); }
    }
    rv.final_size = rd.Size(); rv.final_rr = (int)rd.ReadResult();
    if (saw_error && rv.final_rr == NLW2_SOLRead_OK) rv.error_swallowed = true;
  }
  template <class R> void OnDualSolution(R& rd) { ++n_dual; order.push_back("dual"); drain(rd, dual, [&](double v) { dual.v.push_back(v); }); }
  template <class R> void OnPrimalSolution(R& rd) { ++n_primal; order.push_back("primal"); drain(rd, primal, [&](double v) { primal.v.push_back(v); }); }
  void OnObjno(int n) { objno = n; ++n_objno; order.push_back("objno"); }
  void OnSolveCode(int c) { code = c; ++n_code; order.push_back("code"); }
  template <class R> void OnIntSuffix(R& sr) {
    RecSuf s; s.kind = sr.SufInfo().Kind(); s.name = sr.SufInfo().Name(); s.table = sr.SufInfo().Table(); s.isdbl = false;
    order.push_back("isuf");
    drain(sr, s, [&](std::pair<int, int> v) { s.idx.push_back(v.first); s.v.push_back(v.second); });
    sufs.push_back(s);
  }
  template <class R> void OnDblSuffix(R& sr) {
    RecSuf s; s.kind = sr.SufInfo().Kind(); s.name = sr.SufInfo().Name(); s.table = sr.SufInfo().Table(); s.isdbl = true;
    order.push_back("dsuf");
    drain(sr, s, [&](std::pair<int, double> v) { s.idx.push_back(v.first); s.v.push_back(v.second); });
    sufs.push_back(s);
  }
};

inline bool write_file(const std::string& path, const std::string& bytes) {
  FILE* f = fopen(path.c_str(), "wb"); if (!f) return false;
  bool ok = fwrite(bytes.data(), 1, bytes.size(), f) == bytes.size();
  fclose(f); return ok;
}

}  // namespace sg
#endif
