// C02 monitor: the NL reader on valid and hostile bytes, through the string and the file path,
// with the recording/checking handler, NullNLHandler and the mp::Problem builder.
#include "nlmodel.h"
#include "mp/problem.h"
#include <unistd.h>
#include <typeinfo>

using namespace nm;

struct Outcome { int kind = 0; std::string what; };  // 0 completed, 1 ReadError, 2 BinaryReadError, 3 other mp::Error, 4 bad_alloc, 5 other std::exception

template <class F> static Outcome guarded(F f) {
  Outcome o;
  try { f(); }
  catch (const mp::ReadError& e) { o.kind = 1; o.what = e.what(); if (e.line() < 0 || e.column() < 0) o.what += " [negative location]"; }
  catch (const mp::BinaryReadError& e) { o.kind = 2; o.what = e.what(); }
  catch (const mp::Error& e) { o.kind = 3; o.what = std::string(typeid(e).name()) + ": " + e.what(); }
  catch (const std::bad_alloc&) { o.kind = 4; o.what = "std::bad_alloc"; }
  catch (const std::exception& e) { o.kind = 5; o.what = std::string(typeid(e).name()) + ": " + e.what(); }
  return o;
}

static std::string mutate(vf::Rng& r, std::string b, bool binary, std::string& how) {
  static const char* toks[] = {"-1", "0", "1", "2", "3", "7", "8", "9", "10", "82", "83", "100", "65536", "2147483647", "2147483648", "4294967295", "4294967296",
                               "99999999999999999999", "1e30", "-1e30", "nan", "inf", "-inf", "1e999", "1e-999", "x", "", " ", "0x10", "1.5", "-0", "+5", "1e", "."};
  auto lines = [&]() { std::vector<std::string> v; std::string cur; for (char c : b) { cur += c; if (c == '\n') { v.push_back(cur); cur.clear(); } } if (!cur.empty()) v.push_back(cur); return v; };
  auto join = [&](const std::vector<std::string>& v) { std::string o; for (auto& s : v) o += s; return o; };
  int m = (int)r.below(binary ? 9 : 12);
  size_t hdr_end = 0; { int nl = 0; for (size_t i = 0; i < b.size(); ++i) if (b[i] == '\n' && ++nl == 10) { hdr_end = i + 1; break; } }
  switch (m) {
    case 0: how = "truncate"; if (!b.empty()) b.resize(r.below(b.size())); break;
    case 1: how = "flipbyte"; if (!b.empty()) b[r.below(b.size())] = (char)r.below(256); break;
    case 2: how = "insert-nul"; if (!b.empty()) b.insert(r.below(b.size()), 1, '\0'); break;
    case 3: how = "dup-chunk"; if (b.size() > 4) { size_t i = r.below(b.size() - 1), n = 1 + r.below(std::min<size_t>(80, b.size() - i)); b.insert(i, b.substr(i, n)); } break;
    case 4: how = "del-chunk"; if (b.size() > 4) { size_t i = r.below(b.size() - 1), n = 1 + r.below(std::min<size_t>(40, b.size() - i)); b.erase(i, n); } break;
    case 5: how = "append-garbage"; { int n = r.range(1, 30); for (int i = 0; i < n; ++i) b += (char)r.below(256); } break;
    case 6: {  // header field
      how = "header-field"; auto v = lines(); if (v.size() < 10) break;
      size_t li = r.below(10); std::vector<std::string> f; std::string cur;
      for (char ch : v[li]) { if (ch == ' ' || ch == '\n' || ch == '\t') { if (!cur.empty()) f.push_back(cur); cur.clear(); } else cur += ch; }
      if (!cur.empty()) f.push_back(cur);
      if (f.empty()) break;
      size_t fi = r.below(f.size()); f[fi] = toks[r.below(sizeof toks / sizeof *toks)];
      std::string o2; for (size_t i = 0; i < f.size(); ++i) o2 += (li == 0 && i == 0 ? "" : " ") + f[i];
      v[li] = o2 + "\n"; b = join(v); break; }
    case 7: {  // binary: overwrite an int in the body; text: falls to token replacement
      how = "int-field";
      if (binary && b.size() > hdr_end + 8) {
        static const int vals[] = {-1, 0, 1, 2, 3, 82, 83, 255, 65536, 1000000, 0x7fffffff, (int)0x80000000, -2, 16, 54};
        size_t i = hdr_end + r.below(b.size() - hdr_end - 4); int v = vals[r.below(sizeof vals / sizeof *vals)]; memcpy(&b[i], &v, 4);
      } else how = "noop";
      break; }
    case 8: {  // segment-level: duplicate or drop the 'b' segment / truncate at a segment letter
      how = "segment";
      if (!binary) {
        auto v = lines(); std::vector<size_t> segs; for (size_t i = 10; i < v.size(); ++i) if (strchr("FSVCLOdxrbkKJG", v[i][0])) segs.push_back(i);
        if (segs.empty()) break;
        size_t s0 = segs[r.below(segs.size())];
        int w = (int)r.below(3);
        if (w == 0) { v.resize(s0); how = "segment-truncate"; }
        else if (w == 1) { size_t e = s0 + 1; while (e < v.size() && !strchr("FSVCLOdxrbkKJG", v[e][0])) ++e; std::vector<std::string> seg(v.begin() + s0, v.begin() + e); v.insert(v.begin() + e, seg.begin(), seg.end()); how = "segment-duplicate"; }
        else { size_t e = s0 + 1; while (e < v.size() && !strchr("FSVCLOdxrbkKJG", v[e][0])) ++e; v.erase(v.begin() + s0, v.begin() + e); how = "segment-delete"; }
        b = join(v);
      } else { size_t i = hdr_end + (b.size() > hdr_end ? r.below(b.size() - hdr_end + 1) : 0); b.resize(std::min(b.size(), i)); how = "body-truncate"; }
      break; }
    case 9: case 10: {  // text: replace one numeric token of a body line
      how = "token"; auto v = lines(); if (v.size() <= 10) break;
      size_t li = 10 + r.below(v.size() - 10); std::string& l = v[li];
      std::vector<std::pair<size_t, size_t>> spans; size_t i = 0;
      while (i < l.size()) { if (isdigit((unsigned char)l[i]) || l[i] == '-' || l[i] == '.') { size_t j = i; while (j < l.size() && (isalnum((unsigned char)l[j]) || strchr("+-.", l[j]))) ++j; spans.push_back({i, j}); i = j; } else ++i; }
      if (spans.empty()) { how = "noop"; break; }
      auto sp = spans[r.below(spans.size())]; l = l.substr(0, sp.first) + toks[r.below(sizeof toks / sizeof *toks)] + l.substr(sp.second); b = join(v); break; }
    case 11: {  // text: replace leading segment/expression letter
      how = "letter"; auto v = lines(); if (v.size() <= 10) break; size_t li = 10 + r.below(v.size() - 10); if (!v[li].empty()) v[li][0] = "FSVCLOdxrbkKJGonvfhsl0123456z\0"[r.below(30)]; b = join(v); break; }
  }
  return b;
}

struct RunResult { Outcome o; nr::Rec rec; };

static void run_rec(const std::string& bytes, int flags, RunResult& rr, const std::string* file) {
  rr.o = guarded([&]() {
    if (file) mp::ReadNLFile(*file, rr.rec, flags);
    else mp::ReadNLString(mp::NLStringRef(bytes.c_str(), bytes.size()), rr.rec, "(input)", flags);
  });
  if (rr.o.kind == 0) rr.rec.finish_ok();
}

int main(int argc, char** argv) {
  vf::Args A = vf::parse_args(argc, argv);
  std::string dir = A.get("--dir", "."), replay = A.get("--file", "");
  char path[4096]; snprintf(path, sizeof path, "%s/nlmon.%d.nl", dir.c_str(), (int)getpid());
  long pagesz = sysconf(_SC_PAGESIZE);
  for (long c = A.from; c < A.to; ++c) {
    vf::begin_case(c);
    vf::Rng r(A.seed, (uint64_t)c);
    Model m = gen_model(r, r.chance(1, 2));
    int fmt = (int)r.below(4);  // 0,1 text; 2 binary native; 3 binary swapped
    bool binary = fmt >= 2, swap = fmt == 3;
    // segment order: canonical or shuffled (V before its users is kept by leaving "FSV" first)
    std::string order = "FSVCLOdxrbkJG";
    if (r.chance(1, 2)) { std::string tail = order.substr(3); for (size_t i = tail.size(); i > 1; --i) std::swap(tail[i - 1], tail[r.below(i)]); size_t kp = tail.find('k'), jp = tail.find('J'); if (kp > jp) std::swap(tail[kp], tail[jp]); order = "FSV" + tail; }
    std::string bytes = emit(m, binary, swap, "", order.c_str());
    // pad (through the free-text part of the first header line) so that the file size hits a page multiple -1 / 0 / +1
    int padmode = (int)r.below(6);   // 0..2 -> target, else none
    if (padmode < 3) { long target = ((long)bytes.size() / pagesz + 1) * pagesz + (padmode - 1); long need = target - (long)bytes.size(); if (need >= 0) bytes = emit(m, binary, swap, std::string((size_t)need, 'p'), order.c_str()); }
    std::string how = "valid";
    if (r.chance(3, 4)) { int nmut = r.chance(3, 4) ? 1 : r.range(2, 3); how = ""; for (int i = 0; i < nmut; ++i) { std::string h; bytes = mutate(r, bytes, binary, h); how += (i ? "+" : "") + h; } }
    // a required integer removed from a segment header of an otherwise valid text file ("C3" -> "C"): must be rejected, not read as 0
    if (how == "valid" && !binary && r.chance(1, 6)) {
      std::vector<size_t> cand; size_t ls = 0; int ln = 0;
      for (size_t q = 0; q <= bytes.size(); ++q) if (q == bytes.size() || bytes[q] == '\n') { if (ln >= 10 && q > ls + 1 && strchr("CLOVJGkdx", bytes[ls]) && isdigit((unsigned char)bytes[ls + 1])) cand.push_back(ls); ls = q + 1; ++ln; }
      if (!cand.empty()) { size_t at = cand[r.below(cand.size())] + 1, e = at; while (e < bytes.size() && isdigit((unsigned char)bytes[e])) ++e; bytes.erase(at, e - at); how = "missing-integer"; }
    }
    if (!replay.empty()) { FILE* f = fopen(replay.c_str(), "rb"); bytes.clear(); int ch; while (f && (ch = fgetc(f)) != EOF) bytes += (char)ch; if (f) fclose(f); how = "replay"; }
    if (A.has("--dump-dir")) {     // corpus for the libFuzzer tier: one selector byte + the NL bytes
      std::string out(1, (char)r.below(8)); out += bytes; std::string pth = A.get("--dump-dir", ".") + "/c" + std::to_string(c);
      FILE* f = fopen(pth.c_str(), "wb"); if (f) { fwrite(out.data(), 1, out.size(), f); fclose(f); } vf::J j; j.i("case", c); vf::emit(j); continue;
    }
    { FILE* f = fopen(path, "wb"); if (!f || fwrite(bytes.data(), 1, bytes.size(), f) != bytes.size()) { fprintf(stderr, "harness: cannot write %s\n", path); return 3; } fclose(f); }
    std::string fpath = path;
    std::vector<std::string> bad; std::string detail;
    RunResult s0, s1, f0, f1;
    run_rec(bytes, 0, s0, nullptr);
    run_rec(bytes, mp::READ_BOUNDS_FIRST, s1, nullptr);
    run_rec(bytes, 0, f0, &fpath);
    run_rec(bytes, mp::READ_BOUNDS_FIRST, f1, &fpath);
    RunResult* all[4] = {&s0, &s1, &f0, &f1}; const char* nm_[4] = {"string", "string+boundsfirst", "file", "file+boundsfirst"};
    for (int i = 0; i < 4; ++i) {
      for (auto& v : all[i]->rec.viol) { bad.push_back(v); if (detail.empty()) detail = std::string(nm_[i]) + ": " + v; }
      if (all[i]->o.kind == 3 || all[i]->o.kind == 5) { bad.push_back("reader-threw-unlocated-exception"); if (detail.empty()) detail = all[i]->o.what; }
      if (all[i]->o.kind == 1 && all[i]->o.what.find("[negative location]") != std::string::npos) bad.push_back("read-error-with-negative-location");
    }
    // file path == memory path (same bytes, same flags)
    auto same = [&](RunResult& a, RunResult& b2, const char* tag) {
      if (a.o.kind != b2.o.kind) { bad.push_back(std::string("file-and-string-outcome-differ:") + tag); detail = a.o.what + " | " + b2.o.what; return; }
      if (a.rec.lines.size() != b2.rec.lines.size() || a.rec.digest() != b2.rec.digest() || a.rec.n_events != b2.rec.n_events) { bad.push_back(std::string("file-and-string-notifications-differ:") + tag); }
    };
    same(s0, f0, "flags0"); same(s1, f1, "boundsfirst");
    if (how == "missing-integer") for (int i = 0; i < 4; ++i) if (all[i]->o.kind == 0) { bad.push_back("input-with-a-missing-required-integer-accepted"); if (detail.empty()) detail = nm_[i]; break; }
    // valid unmodified input: completes and reports the generator's model
    int valid_state = 0;
    if (how == "valid") {
      if (s0.o.kind != 0) { bad.push_back("valid-input-rejected"); detail = s0.o.what; valid_state = 2; }
      else {
        valid_state = 1;
        auto exp = expected_lines(m);
        for (int i = 0; i < 2; ++i) {
          auto& rc = all[i]->rec; if (all[i]->o.kind != 0) { bad.push_back("valid-input-rejected"); detail = all[i]->o.what; continue; }
          std::vector<std::string> got(rc.lines.begin() + (rc.lines.empty() ? 0 : 1), rc.lines.end()); std::sort(got.begin(), got.end());
          if (got != exp) {
            bad.push_back("valid-model-misreported");
            for (size_t k = 0; k < std::max(got.size(), exp.size()); ++k) { std::string g = k < got.size() ? got[k] : "<none>", e = k < exp.size() ? exp[k] : "<none>"; if (g != e) { detail = "expected [" + e.substr(0, 200) + "] got [" + g.substr(0, 200) + "]"; break; } }
          }
          const mp::NLHeader& h = rc.h;
          if (h.num_vars != m.nvars || h.num_algebraic_cons != m.ncons || h.num_objs != m.nobjs || h.num_logical_cons != m.nlogical || h.num_funcs != m.nfuncs ||
              h.num_ampl_options != (int)m.opts.size() || h.num_nl_cons != m.nlcons || h.num_nl_objs != m.nlobjs || h.num_linear_binary_vars != m.nbv ||
              h.num_linear_integer_vars != m.niv || (long)h.num_con_nonzeros != m.nzc || (long)h.num_obj_nonzeros != m.nzo || h.num_compl_conds != m.ncompl_lin + m.ncompl_nl ||
              h.num_common_exprs_in_both != m.ce[0] || h.num_common_exprs_in_single_objs != m.ce[4] || h.flags != m.flags || h.max_var_name_len != m.maxvname)
            bad.push_back("valid-header-misreported");
        }
      }
    }
    // other receiving handlers: must terminate without sanitizer report (judged by the process surviving)
    mp::NullNLHandler<int> nullh;
    Outcome on = guarded([&]() { mp::ReadNLString(mp::NLStringRef(bytes.c_str(), bytes.size()), nullh, "(input)", c & 1 ? mp::READ_BOUNDS_FIRST : 0); });
    if (on.kind != s0.o.kind && on.kind != s1.o.kind) { /* NullNLHandler shares the reader: same outcome class expected */ bad.push_back("null-handler-outcome-differs"); detail = on.what + " | " + s0.o.what; }
    int prob_state = -1;
    if (s0.rec.have_header) {
      const mp::NLHeader& h = s0.rec.h; long lim = 20000;
      if (h.num_vars <= lim && h.num_algebraic_cons <= lim && h.num_objs <= lim && h.num_logical_cons <= lim && h.num_funcs <= lim && s0.rec.ncommon() <= lim) {
        mp::Problem p;
        Outcome op = guarded([&]() { mp::ReadNLString(mp::NLStringRef(bytes.c_str(), bytes.size()), p, "(input)", c & 2 ? mp::READ_BOUNDS_FIRST : 0); });
        prob_state = op.kind;
        if (how == "valid" && op.kind != 0 && op.kind != 3) { bad.push_back("valid-input-rejected-by-problem-builder"); detail = op.what; }
      }
    }
    std::string ops; for (auto& o : s0.rec.ops_seen) ops += (ops.empty() ? "" : ",") + o;
    vf::J j; j.i("case", c).s("how", how).i("fmt", fmt).i("pad", padmode < 3 ? padmode - 1 : 9).i("out0", s0.o.kind).i("out1", s1.o.kind).i("events", s0.rec.n_events)
        .i("nodes", s0.rec.n_expr_nodes).i("prob", prob_state).i("valid_state", valid_state).i("bytes", (long long)bytes.size()).s("err", s0.o.what.substr(0, 160)).s("ops", ops).s("detail", detail.substr(0, 500));
    std::sort(bad.begin(), bad.end()); bad.erase(std::unique(bad.begin(), bad.end()), bad.end());
    std::string bl = "["; for (size_t i = 0; i < bad.size(); ++i) { if (i) bl += ","; bl += "\"" + vf::jesc(bad[i]) + "\""; } bl += "]";
    j.raw("bad", bl);
    if (!bad.empty()) { std::string hex; for (unsigned char ch : bytes.substr(0, 8000)) { char t[4]; snprintf(t, 4, "%02x", ch); hex += t; } j.s("hex", hex); }
    vf::emit(j);
  }
  unlink(path);
  return 0;
}
