// C14 libFuzzer entry: mp::SOLReader2 on fuzzer-chosen bytes with the same online monitor as solread_mon.
// Input layout: byte0 = declared variables (mod 16), byte1 = declared constraints (mod 16), byte2 = reading policy (mod 3), rest = file bytes.
// A monitor violation aborts with "MONITOR-VIOLATION <key>" on stderr so that libFuzzer keeps the input.
#include "solgen.h"
#include "fuzz_new.h"
#include <unistd.h>
using namespace sg;

static void stated_bounds(const std::string& b, bool binary, long& max_namelen, long& max_tablen) {
  max_namelen = max_tablen = -1;
  if (binary) {
    for (size_t p = b.find("\nSuffix\n"); p != std::string::npos; p = b.find("\nSuffix\n", p + 1))
      if (p + 8 + 16 <= b.size()) { int h[4]; memcpy(h, &b[p + 8], 16); max_namelen = std::max<long>(max_namelen, h[2]); max_tablen = std::max<long>(max_tablen, h[3]); }
  } else {
    for (size_t p = 0; p < b.size();) {
      size_t e = b.find('\n', p); if (e == std::string::npos) e = b.size();
      if (!b.compare(p, 7, "suffix ")) {
        long f[5] = {0, 0, 0, 0, 0}; const char* s = b.c_str() + p + 7; char* se; int k = 0;
        for (; k < 5; ++k) { f[k] = strtol(s, &se, 10); if (se == s) break; s = se; }
        if (k >= 4) { max_namelen = std::max(max_namelen, f[2]); max_tablen = std::max(max_tablen, f[3]); }
      }
      p = e + 1;
    }
  }
}

static char g_path[256];
static void rm_path() { if (g_path[0]) unlink(g_path); }

extern "C" int LLVMFuzzerTestOneInput(const uint8_t* data, size_t size) {
  if (size < 3) return 0;
  if (!g_path[0]) { const char* d = getenv("FUZZ_TMPDIR"); snprintf(g_path, sizeof g_path, "%s/fz.%d.sol", d ? d : "/dev/shm", (int)getpid()); atexit(rm_path); }
  std::string bytes((const char*)data + 3, size - 3);
  vf::Rng r(1, (uint64_t)size * 131 + data[0]);
  Handler h; h.rng = &r; h.policy = data[2] % 3;
  h.hdr.num_vars = data[0] % 16; h.hdr.num_algebraic_cons = data[1] % 16;
  if (!write_file(g_path, bytes)) return 0;
  bool binary = bytes.size() > 10 && !bytes.compare(4, 6, "binary");
  mp::NLUtils utils; int code = -100; std::string emsg, exc;
  try { auto res = mp::ReadSOLFile(g_path, h, utils); code = (int)res.first; emsg = res.second; }
  catch (const std::bad_alloc&) { exc = "std::bad_alloc"; }
  catch (const std::exception& e) { exc = std::string("exception:") + typeid(e).name(); }
  std::vector<std::string> bad;
  if (!exc.empty() && exc != "std::bad_alloc") bad.push_back("escaped-" + exc);
  if (exc.empty()) {
    if (code < 0 || code > (int)NLW2_SOLRead_Bad_Suffix) bad.push_back("undocumented-return-code");
    if (code != 0 && emsg.empty()) bad.push_back("error-code-without-message:code" + std::to_string(code));
  }
  if (h.n_dual > 1 || h.n_primal > 1 || h.n_msg > 1 || h.n_objno > 1 || h.n_code > 1) bad.push_back("callback-repeated");
  if (h.dual.offered > h.hdr.num_algebraic_cons) bad.push_back("dual-values-offered-exceed-declared-constraints");
  if (h.primal.offered > h.hdr.num_vars) bad.push_back("primal-values-offered-exceed-declared-variables");
  if (h.dual.offered < 0 || h.primal.offered < 0) bad.push_back("negative-count-offered");
  if (h.dual.error_swallowed || h.primal.error_swallowed) bad.push_back("vector-read-error-swallowed");
  // the reader decides text/binary from the first record; the bound must not depend on guessing that: take the larger of both readings
  long mxn, mxt, mxn2, mxt2; stated_bounds(bytes, true, mxn, mxt); stated_bounds(bytes, false, mxn2, mxt2);
  mxn = std::max(mxn, mxn2 - 1); mxt = std::max(mxt, mxt2); binary = true;
  for (auto& sf : h.sufs) {
    if (sf.error_swallowed) bad.push_back("suffix-read-error-swallowed");
    if (sf.offered < 0) bad.push_back("negative-count-offered");
    if (!(bytes.size() >= 4 && !memcmp(bytes.data(), "\6\0\0\0", 4)) && sf.name.find('\n') != std::string::npos) bad.push_back("suffix-name-contains-a-line-break");   // text: a name is cut out of one line
    if ((long)sf.name.size() > std::max<long>(0, mxn - (binary ? 0 : 1))) bad.push_back("suffix-name-longer-than-stated");
    if ((long)sf.table.size() > std::max<long>(0, mxt)) bad.push_back("suffix-table-longer-than-stated");
  }
  if (code == 0 && exc.empty()) {
    auto chk = [&](const RecVec& v, const char* n) { if (v.offered > 0 && (v.final_rr != 0 || v.taken < v.offered)) bad.push_back(std::string("ok-returned-but-vector-incomplete:") + n); };
    chk(h.dual, "dual"); chk(h.primal, "primal"); for (auto& sf : h.sufs) chk(sf, "suffix");
  }
  if (!bad.empty()) { fprintf(stderr, "MONITOR-VIOLATION %s\n", bad[0].c_str()); abort(); }
  return 0;
}
