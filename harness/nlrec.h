// Recording + online-checking NLHandler (used by C02, C03, C08).
// Records every notification as one canonical text line and asserts, against the header it
// received first, the consistency rules of property C02.  No dependence on what the reader
// "should" produce: only on the NLHandler concept.
#ifndef NLREC_H_
#define NLREC_H_
#include "vfh.h"
#include "mp/nl-reader.h"
#include <map>
#include <set>

namespace nr {

inline std::string dbits(double d) {
  if (d == 0) d = 0;  // -0 -> +0 (sign of zero is outside the round-trip claim)
  if (std::isnan(d)) return "nan";
  char b[40]; snprintf(b, sizeof b, "%a", d); return b;
}

struct Node { std::string head; std::vector<int> kids; };

struct Rec : mp::NLHandler<Rec, int> {
  typedef int Expr; typedef int NumericExpr; typedef int LogicalExpr; typedef int CountExpr; typedef int Reference;

  mp::NLHeader h; bool have_header = false; int n_header = 0, n_end = 0;
  std::vector<std::string> lines;          // canonical event lines, in arrival order
  std::vector<std::string> viol;           // consistency violations (rule names)
  std::vector<Node> arena;
  long n_events = 0, n_expr_nodes = 0;
  std::set<std::string> ops_seen;
  bool keep_lines = true;
  size_t line_bytes = 0;

  // --- pending counted handler (linear parts, suffixes, column sizes): must be complete at the next top-level event
  struct Pending { std::string what, line; long expect = 0, got = 0; bool active = false; int item_bound = 0; };
  std::vector<Pending> pend;    // slots (kept small: completed slots are recycled)
  int cur_pend = -1;
  // --- open Begin..End frames
  struct Frame { std::string head; long expect; std::vector<int> kids; long slopes = 0, bps = 0; };
  std::vector<Frame> open;

  void bad(const std::string& rule) { if (viol.size() < 20) viol.push_back(rule); }
  int ncommon() const { return h.num_common_exprs_in_both + h.num_common_exprs_in_cons + h.num_common_exprs_in_objs + h.num_common_exprs_in_single_cons + h.num_common_exprs_in_single_objs; }
  void chk(bool ok, const char* rule) { if (!ok) bad(rule); }
  void idx(long i, long n, const char* rule) { if (i < 0 || i >= n) bad(rule); }

  void line(const std::string& s) {
    if (keep_lines && line_bytes < (size_t)256 << 20) { lines.push_back(s); line_bytes += s.size(); }
  }
  void close_pending() {
    if (cur_pend >= 0) {
      Pending& p = pend[cur_pend];
      if (p.got != p.expect) bad("announced-count-not-delivered:" + p.what);
      line(p.line);
      p.active = false; cur_pend = -1;
    }
  }
  void top(const char* name) {   // every top-level notification passes here first
    ++n_events;
    if (!have_header) bad(std::string("event-before-header:") + name);
    if (n_end) bad(std::string("event-after-EndInput:") + name);
    if (!open.empty()) bad(std::string("top-level-event-inside-open-expression:") + name);
    close_pending();
  }
  int new_pending(const std::string& what, const std::string& head, long expect, int item_bound) {
    pend.clear(); pend.push_back(Pending()); cur_pend = 0;
    Pending& p = pend[0]; p.what = what; p.line = head; p.expect = expect; p.active = true; p.item_bound = item_bound;
    return 0;
  }

  std::string ser(int root) {   // iterative prefix serialization
    std::string o; std::vector<std::pair<int, size_t>> st; st.push_back({root, 0});
    while (!st.empty()) {
      auto& t = st.back();
      if (t.first <= 0 || t.first > (int)arena.size()) { o += t.first == 0 ? "(null)" : "?"; st.pop_back(); continue; }
      Node& n = arena[t.first - 1];
      if (t.second == 0) { o += "("; o += n.head; }
      if (t.second < n.kids.size()) { o += " "; int k = n.kids[t.second++]; st.push_back({k, 0}); }
      else { o += ")"; st.pop_back(); }
    }
    return o;
  }
  int node(const std::string& head, std::vector<int> kids = {}) {
    ++n_expr_nodes; arena.push_back(Node{head, std::move(kids)}); return (int)arena.size();
  }
  void expr_done() { arena.clear(); }

  // ---------------------------------------------------------------- notifications
  void OnUnhandled(const char*) {}
  void OnHeader(const mp::NLHeader& hh) {
    ++n_header; if (have_header) bad("OnHeader-twice"); h = hh; have_header = true; ++n_events;
    char b[600];
    snprintf(b, sizeof b, "H fmt=%d nv=%d nc=%d no=%d nr=%d ne=%d nl=%d nlc=%d nlo=%d cc=%d ncc=%d cdi=%d cnz=%d nnc=%d lnc=%d nlvc=%d nlvo=%d nlvb=%d lnv=%d nf=%d fl=%d nbv=%d niv=%d nlvbi=%d nlvci=%d nlvoi=%d nzc=%zu nzo=%zu ncl=%d nvl=%d ce=%d,%d,%d,%d,%d",
             (int)hh.format, hh.num_vars, hh.num_algebraic_cons, hh.num_objs, hh.num_ranges, hh.num_eqns, hh.num_logical_cons, hh.num_nl_cons, hh.num_nl_objs,
             hh.num_compl_conds, hh.num_nl_compl_conds, hh.num_compl_dbl_ineqs, hh.num_compl_vars_with_nz_lb, hh.num_nl_net_cons, hh.num_linear_net_cons,
             hh.num_nl_vars_in_cons, hh.num_nl_vars_in_objs, hh.num_nl_vars_in_both, hh.num_linear_net_vars, hh.num_funcs, hh.flags,
             hh.num_linear_binary_vars, hh.num_linear_integer_vars, hh.num_nl_integer_vars_in_both, hh.num_nl_integer_vars_in_cons, hh.num_nl_integer_vars_in_objs,
             hh.num_con_nonzeros, hh.num_obj_nonzeros, hh.max_con_name_len, hh.max_var_name_len,
             hh.num_common_exprs_in_both, hh.num_common_exprs_in_cons, hh.num_common_exprs_in_objs, hh.num_common_exprs_in_single_cons, hh.num_common_exprs_in_single_objs);
    std::string s = b; s += " opts=" + std::to_string(hh.num_ampl_options);
    for (int i = 0; i < hh.num_ampl_options && i < mp::MAX_AMPL_OPTIONS; ++i) s += "," + std::to_string(hh.ampl_options[i]);
    if (hh.num_ampl_options > 1 && hh.ampl_options[1] == 3) s += " vbtol=" + dbits(hh.ampl_vbtol);
    chk(hh.num_vars >= 0 && hh.num_algebraic_cons >= 0 && hh.num_objs >= 0 && hh.num_logical_cons >= 0 && hh.num_funcs >= 0, "header-negative-count");
    chk(hh.num_ampl_options >= 0 && hh.num_ampl_options <= mp::MAX_AMPL_OPTIONS, "header-option-count-out-of-range");
    chk(ncommon() >= 0 && (long)hh.num_vars + ncommon() <= 2147483647L, "header-vars+common-exprs-overflow");
    line(s);
  }
  int resulting_obj_index(int i) const { return i; }

  void OnObj(int index, mp::obj::Type t, int e) { top("OnObj"); idx(index, h.num_objs, "obj-index-out-of-range"); line("O " + std::to_string(index) + " " + std::to_string((int)t) + " " + (e > 0 ? ser(e) : "-")); expr_done(); }
  void OnAlgebraicCon(int index, int e) { top("OnAlgebraicCon"); idx(index, h.num_algebraic_cons, "algebraic-con-index-out-of-range"); line("C " + std::to_string(index) + " " + (e > 0 ? ser(e) : "-")); expr_done(); }
  void OnLogicalCon(int index, int e) { top("OnLogicalCon"); idx(index, h.num_logical_cons, "logical-con-index-out-of-range"); line("L " + std::to_string(index) + " " + (e > 0 ? ser(e) : "-")); expr_done(); }

  struct LinH { Rec* r; int slot; void AddTerm(int var, double coef) { r->lin_term(slot, var, coef); } };
  typedef LinH LinearExprHandler; typedef LinH LinearObjHandler; typedef LinH LinearConHandler;
  void lin_term(int slot, int var, double coef) {
    ++n_events;
    if (slot != cur_pend || cur_pend < 0) { bad("term-for-a-closed-linear-expression"); return; }
    Pending& p = pend[slot]; ++p.got; if (p.got > p.expect) bad("more-terms-than-announced:" + p.what);
    idx(var, h.num_vars, "linear-term-variable-out-of-range");
    p.line += " " + std::to_string(var) + ":" + dbits(coef);
  }
  LinH BeginCommonExpr(int index, int n) {
    top("BeginCommonExpr"); idx(index, ncommon(), "common-expr-index-out-of-range"); chk(n >= 0, "negative-term-count");
    in_common = index;
    return LinH{this, new_pending("common-expr-linear", "V " + std::to_string(index) + " lin", n, h.num_vars)};
  }
  int in_common = -1;
  void EndCommonExpr(int index, int e, int position) {
    ++n_events;
    if (in_common != index) bad("EndCommonExpr-without-matching-Begin");
    in_common = -1;
    if (!open.empty()) bad("EndCommonExpr-inside-open-expression");
    close_pending();
    line("V " + std::to_string(index) + " pos=" + std::to_string(position) + " " + (e > 0 ? ser(e) : "-")); expr_done();
  }
  void OnComplementarity(int con, int var, mp::ComplInfo info) {
    top("OnComplementarity"); idx(con, h.num_algebraic_cons, "compl-con-index-out-of-range"); idx(var, h.num_vars, "compl-var-index-out-of-range");
    line("c " + std::to_string(con) + " " + std::to_string(var) + " " + dbits(info.con_lb()) + " " + dbits(info.con_ub()));
  }
  LinH OnLinearObjExpr(int index, int n) {
    top("OnLinearObjExpr"); idx(index, h.num_objs, "linear-obj-index-out-of-range"); chk(n >= 1 && n <= h.num_vars, "linear-obj-term-count-out-of-range");
    return LinH{this, new_pending("linear-obj", "G " + std::to_string(index), n, h.num_vars)};
  }
  LinH OnLinearConExpr(int index, int n) {
    top("OnLinearConExpr"); idx(index, h.num_algebraic_cons, "linear-con-index-out-of-range"); chk(n >= 1 && n <= h.num_vars, "linear-con-term-count-out-of-range");
    return LinH{this, new_pending("linear-con", "J " + std::to_string(index), n, h.num_vars)};
  }
  void OnVarBounds(int index, double lb, double ub) { top("OnVarBounds"); idx(index, h.num_vars, "var-bound-index-out-of-range"); line("b " + std::to_string(index) + " " + dbits(lb) + " " + dbits(ub)); }
  void OnConBounds(int index, double lb, double ub) { top("OnConBounds"); idx(index, h.num_algebraic_cons, "con-bound-index-out-of-range"); line("r " + std::to_string(index) + " " + dbits(lb) + " " + dbits(ub)); }
  void OnInitialValue(int index, double v) { top("OnInitialValue"); idx(index, h.num_vars, "initial-value-index-out-of-range"); line("x " + std::to_string(index) + " " + dbits(v)); }
  void OnInitialDualValue(int index, double v) { top("OnInitialDualValue"); idx(index, h.num_algebraic_cons, "initial-dual-index-out-of-range"); line("d " + std::to_string(index) + " " + dbits(v)); }

  struct ColH { Rec* r; int slot; void Add(int size) { r->col_add(slot, size); } };
  typedef ColH ColumnSizeHandler;
  void col_add(int slot, int size) {
    ++n_events; if (slot != cur_pend || cur_pend < 0) { bad("column-size-for-closed-handler"); return; }
    Pending& p = pend[slot]; ++p.got; chk(size >= 0, "negative-column-size"); p.line += " " + std::to_string(size);
  }
  ColH OnColumnSizes() { top("OnColumnSizes"); return ColH{this, new_pending("column-sizes", "k", (long)h.num_vars - 1, 0)}; }

  void OnFunction(int index, fmt::StringRef name, int nargs, mp::func::Type t) {
    top("OnFunction"); idx(index, h.num_funcs, "function-index-out-of-range");
    line("F " + std::to_string(index) + " " + std::to_string((int)t) + " " + std::to_string(nargs) + " " + vf::jesc(std::string(name.data() ? name.data() : "", name.size())));
  }
  template <class T> struct SufH { Rec* r; int slot; void SetValue(int index, T v) { r->suf_val(slot, index, (double)v); } };
  typedef SufH<int> IntSuffixHandler; typedef SufH<double> DblSuffixHandler;
  void suf_val(int slot, int index, double v) {
    ++n_events; if (slot != cur_pend || cur_pend < 0) { bad("suffix-value-for-closed-handler"); return; }
    Pending& p = pend[slot]; ++p.got; if (p.got > p.expect) bad("more-suffix-values-than-announced");
    idx(index, p.item_bound, "suffix-value-index-out-of-range"); p.line += " " + std::to_string(index) + ":" + dbits(v);
  }
  int nitems(int kind) const { return kind == 0 ? h.num_vars : kind == 1 ? h.num_algebraic_cons + h.num_logical_cons : kind == 2 ? h.num_objs : 1; }
  template <class T> SufH<T> on_suf(fmt::StringRef name, mp::suf::Kind kind, int n, const char* tag) {
    top("OnSuffix"); chk((int)kind >= 0 && (int)kind <= 3, "suffix-kind-out-of-range");
    int ni = nitems((int)kind & 3); chk(n >= 1 && n <= ni, "suffix-value-count-out-of-range");
    return SufH<T>{this, new_pending("suffix", std::string("S") + tag + " " + std::to_string((int)kind) + " " + vf::jesc(std::string(name.data() ? name.data() : "", name.size())), n, ni)};
  }
  SufH<int> OnIntSuffix(fmt::StringRef name, mp::suf::Kind kind, int n) { return on_suf<int>(name, kind, n, "i"); }
  SufH<double> OnDblSuffix(fmt::StringRef name, mp::suf::Kind kind, int n) { return on_suf<double>(name, kind, n, "d"); }

  // ---------------------------------------------------------------- expressions
  void expr_event() { ++n_events; if (!have_header) bad("expression-before-header"); if (n_end) bad("expression-after-EndInput"); }
  std::string kn(mp::expr::Kind k) { std::string s = std::string(mp::expr::str(k)) + ":" + std::to_string((int)k); ops_seen.insert(s); return s; }
  int OnNumber(double v) { expr_event(); return node("n" + dbits(v)); }
  int OnVariableRef(int i) { expr_event(); idx(i, h.num_vars, "variable-ref-out-of-range"); return node("v" + std::to_string(i)); }
  int OnCommonExprRef(int i) { expr_event(); idx(i, ncommon(), "common-expr-ref-out-of-range"); return node("e" + std::to_string(i)); }
  int OnUnary(mp::expr::Kind k, int a) { expr_event(); chk(k >= mp::expr::FIRST_UNARY && k <= mp::expr::LAST_UNARY, "unary-kind-out-of-class"); return node(kn(k), {a}); }
  int OnBinary(mp::expr::Kind k, int a, int b) { expr_event(); chk(k >= mp::expr::FIRST_BINARY && k <= mp::expr::LAST_BINARY, "binary-kind-out-of-class"); return node(kn(k), {a, b}); }
  int OnIf(int c, int t, int e) { expr_event(); return node(kn(mp::expr::IF), {c, t, e}); }

  struct ArgH { Rec* r; int slot; void AddArg(int e) { r->add_arg(slot, e); } };
  typedef ArgH NumericArgHandler; typedef ArgH VarArgHandler; typedef ArgH CallArgHandler; typedef ArgH NumberOfArgHandler;
  typedef ArgH CountArgHandler; typedef ArgH LogicalArgHandler; typedef ArgH PairwiseArgHandler; typedef ArgH SymbolicArgHandler;
  ArgH begin(const std::string& head, long n, long minargs) {
    expr_event(); chk(n >= minargs, "announced-argument-count-below-minimum");
    open.push_back(Frame{head, n, {}}); return ArgH{this, (int)open.size() - 1};
  }
  void add_arg(int slot, int e) {
    ++n_events;
    if (slot != (int)open.size() - 1) { bad("argument-for-a-frame-that-is-not-innermost"); return; }
    Frame& f = open.back(); f.kids.push_back(e); if ((long)f.kids.size() > f.expect) bad("more-arguments-than-announced");
  }
  int end(ArgH hd, const char* what) {
    expr_event();
    if (hd.slot != (int)open.size() - 1 || open.empty()) { bad(std::string("End-does-not-match-innermost-Begin:") + what); return node("?"); }
    Frame f = std::move(open.back()); open.pop_back();
    if ((long)f.kids.size() != f.expect) bad(std::string("announced-count-not-delivered:") + what);
    return node(f.head + "#" + std::to_string(f.expect), std::move(f.kids));
  }
  struct PLH { Rec* r; int slot; void AddSlope(double s) { r->pl_add(slot, s, true); } void AddBreakpoint(double b) { r->pl_add(slot, b, false); } };
  typedef PLH PLTermHandler;
  void pl_add(int slot, double v, bool slope) {
    ++n_events; if (slot != (int)open.size() - 1) { bad("pl-data-for-a-frame-that-is-not-innermost"); return; }
    Frame& f = open.back(); (slope ? f.slopes : f.bps)++; f.head += (slope ? " s" : " b") + dbits(v);
  }
  PLH BeginPLTerm(int nb) { expr_event(); chk(nb >= 1, "pl-breakpoint-count-below-1"); open.push_back(Frame{kn(mp::expr::PLTERM), nb, {}}); return PLH{this, (int)open.size() - 1}; }
  int EndPLTerm(PLH hd, int ref) {
    expr_event();
    if (hd.slot != (int)open.size() - 1 || open.empty()) { bad("End-does-not-match-innermost-Begin:pl"); return node("?"); }
    Frame f = std::move(open.back()); open.pop_back();
    if (f.bps != f.expect || f.slopes != f.expect + 1) bad("announced-count-not-delivered:pl");
    return node(f.head, {ref});
  }
  ArgH BeginCall(int fi, int n) { idx(fi, h.num_funcs, "call-function-index-out-of-range"); return begin("call f" + std::to_string(fi), n, 0); }
  int EndCall(ArgH a) { return end(a, "call"); }
  ArgH BeginVarArg(mp::expr::Kind k, int n) { chk(k == mp::expr::MIN || k == mp::expr::MAX, "vararg-kind-out-of-class"); return begin(kn(k), n, 1); }
  int EndVarArg(ArgH a) { return end(a, "vararg"); }
  ArgH BeginSum(int n) { return begin(kn(mp::expr::SUM), n, 0); }
  int EndSum(ArgH a) { return end(a, "sum"); }
  ArgH BeginCount(int n) { return begin(kn(mp::expr::COUNT), n, 0); }
  int EndCount(ArgH a) { return end(a, "count"); }
  ArgH BeginNumberOf(int n, int arg0) { ArgH a = begin(kn(mp::expr::NUMBEROF), n, 1); add_arg(a.slot, arg0); return a; }
  int EndNumberOf(ArgH a) { return end(a, "numberof"); }
  ArgH BeginSymbolicNumberOf(int n, int arg0) { ArgH a = begin(kn(mp::expr::NUMBEROF_SYM), n, 1); add_arg(a.slot, arg0); return a; }
  int EndSymbolicNumberOf(ArgH a) { return end(a, "symbolic-numberof"); }
  int OnBool(bool v) { expr_event(); return node(v ? "T" : "F"); }
  int OnNot(int a) { expr_event(); return node(kn(mp::expr::NOT), {a}); }
  int OnBinaryLogical(mp::expr::Kind k, int a, int b) { expr_event(); chk(k >= mp::expr::FIRST_BINARY_LOGICAL && k <= mp::expr::LAST_BINARY_LOGICAL, "binary-logical-kind-out-of-class"); return node(kn(k), {a, b}); }
  int OnRelational(mp::expr::Kind k, int a, int b) { expr_event(); chk(k >= mp::expr::FIRST_RELATIONAL && k <= mp::expr::LAST_RELATIONAL, "relational-kind-out-of-class"); return node(kn(k), {a, b}); }
  int OnLogicalCount(mp::expr::Kind k, int a, int b) { expr_event(); chk(k >= mp::expr::FIRST_LOGICAL_COUNT && k <= mp::expr::LAST_LOGICAL_COUNT, "logical-count-kind-out-of-class"); return node(kn(k), {a, b}); }
  int OnImplication(int c, int t, int e) { expr_event(); return node(kn(mp::expr::IMPLICATION), {c, t, e}); }
  ArgH BeginIteratedLogical(mp::expr::Kind k, int n) { chk(k == mp::expr::EXISTS || k == mp::expr::FORALL, "iterated-logical-kind-out-of-class"); return begin(kn(k), n, 0); }
  int EndIteratedLogical(ArgH a) { return end(a, "iterated-logical"); }
  ArgH BeginPairwise(mp::expr::Kind k, int n) { chk(k == mp::expr::ALLDIFF || k == mp::expr::NOT_ALLDIFF, "pairwise-kind-out-of-class"); return begin(kn(k), n, 0); }
  int EndPairwise(ArgH a) { return end(a, "pairwise"); }
  int OnString(fmt::StringRef s) { expr_event(); return node("h" + vf::jesc(std::string(s.data() ? s.data() : "", s.size()))); }
  int OnSymbolicIf(int c, int t, int e) { expr_event(); return node(kn(mp::expr::IFSYM), {c, t, e}); }
  void EndInput() {
    ++n_events; if (!have_header) bad("EndInput-before-header"); if (!open.empty()) bad("EndInput-inside-open-expression");
    if (in_common >= 0) bad("EndInput-inside-common-expression");
    close_pending(); ++n_end; if (n_end > 1) bad("EndInput-twice");
  }
  // after a completed read
  void finish_ok() { if (n_end != 1) bad("completed-without-exactly-one-EndInput"); if (n_header != 1) bad("completed-without-exactly-one-OnHeader"); }

  uint64_t digest() const {
    uint64_t hsh = 1469598103934665603ULL;
    for (auto& l : lines) { for (unsigned char c : l) { hsh ^= c; hsh *= 1099511628211ULL; } hsh ^= 10; hsh *= 1099511628211ULL; }
    return hsh;
  }
};

}  // namespace nr
#endif
