// C02 libFuzzer entry: the NL reader on fuzzer-chosen bytes (memory path, both flag settings) under the recording/checking handler,
// plus NullNLHandler and the mp::Problem builder.  byte0 selects the variant; the rest is the NL input.
// A monitor violation aborts with "MONITOR-VIOLATION <key>".
#include "nlmodel.h"
#include "fuzz_new.h"
#include "mp/problem.h"
#include <typeinfo>

struct Outcome { int kind = 0; std::string what; };
template <class F> static Outcome guarded(F f) {
  Outcome o;
  try { f(); }
  catch (const mp::ReadError& e) { o.kind = 1; o.what = e.what(); if (e.line() < 0 || e.column() < 0) o.what += " [negative location]"; }
  catch (const mp::BinaryReadError& e) { o.kind = 2; o.what = e.what(); }
  catch (const mp::Error& e) { o.kind = 3; o.what = std::string(typeid(e).name()) + ": " + e.what(); }
  catch (const std::bad_alloc&) { o.kind = 4; o.what = "std::bad_alloc"; }
  catch (const std::exception& e) { o.kind = 5; o.what = std::string(typeid(e).name()) + ": " + e.what(); }
  return o;
}

static void die(const std::string& key) { fprintf(stderr, "MONITOR-VIOLATION %s\n", key.c_str()); abort(); }

extern "C" int LLVMFuzzerTestOneInput(const uint8_t* data, size_t size) {
  if (size < 1) return 0;
  int sel = data[0];
  std::string bytes((const char*)data + 1, size - 1);
  int flags = (sel & 1) ? mp::READ_BOUNDS_FIRST : 0;
  nr::Rec rec;
  Outcome o = guarded([&]() { mp::ReadNLString(mp::NLStringRef(bytes.c_str(), bytes.size()), rec, "(input)", flags); });
  if (o.kind == 0) rec.finish_ok();
  if (!rec.viol.empty()) die(rec.viol[0]);
  if (o.kind == 3 || o.kind == 5) die("reader-threw-unlocated-exception");
  if (o.kind == 1 && o.what.find("[negative location]") != std::string::npos) die("read-error-with-negative-location");
  if ((sel & 6) == 2) {
    mp::NullNLHandler<int> nullh;
    Outcome on = guarded([&]() { mp::ReadNLString(mp::NLStringRef(bytes.c_str(), bytes.size()), nullh, "(input)", flags); });
    if (on.kind != o.kind) die("null-handler-outcome-differs");
  }
  if ((sel & 6) == 4 && rec.have_header) {
    const mp::NLHeader& h = rec.h; long lim = 20000;
    if (h.num_vars <= lim && h.num_algebraic_cons <= lim && h.num_objs <= lim && h.num_logical_cons <= lim && h.num_funcs <= lim && rec.ncommon() <= lim) {
      mp::Problem p;
      guarded([&]() { mp::ReadNLString(mp::NLStringRef(bytes.c_str(), bytes.size()), p, "(input)", flags); });
    }
  }
  return 0;
}
