// C17 monitor: mp::SafeInt<T> against an __int128 reference.
// Case numbering (all deterministic, seed only affects the random block):
//   mode enum8 : case = type(4) x op(3) x a-chunk(16)            -> all pairs of 8-bit T
//   mode enum16: case = type(2: int16,uint16) x op(3) x a-chunk(256) -> all pairs of 16-bit T
//   mode wide  : case = type(5: int,long,long long,unsigned,size_t) x op(3) x block -> boundary^2 + random pairs
//   mode ctor  : case = (U,T) pair over 10 integer types         -> boundary set of U
#include "vfh.h"
#include "mp/safeint.h"
#include <cstdint>
#include <type_traits>

typedef __int128 I128;
using mp::SafeInt; using mp::OverflowError;

#include <map>
struct Stat { long long n = 0, ok = 0, ovf = 0, bad = 0; std::map<std::string, std::pair<long long, std::string>> cls;
  void add_bad(const std::string& c, const std::string& ex) { ++bad; auto& e = cls[c]; if (!e.first++) e.second = ex; } };

static std::string s128(I128 v) {
  if (v == 0) return "0";
  bool neg = v < 0; unsigned __int128 u = neg ? -(unsigned __int128)v : (unsigned __int128)v;
  std::string s; while (u) { s.insert(s.begin(), char('0' + (int)(u % 10))); u /= 10; }
  return neg ? "-" + s : s;
}

template <class T> static const char* tname();
#define TN(T) template <> const char* tname<T>() { return #T; }
TN(signed char) TN(unsigned char) TN(short) TN(unsigned short) TN(int) TN(unsigned) TN(long) TN(unsigned long)
TN(long long) TN(unsigned long long)

template <class T>
static void check_op(int op, T a, T b, Stat& st) {
  I128 ea; bool repr;
  if (op != 2) {
    ea = op == 0 ? (I128)a + (I128)b : (I128)a - (I128)b;   // |a|,|b| < 2^64: cannot overflow 128 bits
    repr = ea >= (I128)std::numeric_limits<T>::min() && ea <= (I128)std::numeric_limits<T>::max();
  } else {
    // sign-magnitude product in unsigned 128 bits: (2^64-1)^2 < 2^128
    typedef unsigned __int128 U128;
    bool na = (I128)a < 0, nb = (I128)b < 0;
    U128 ma = na ? (U128)(-(I128)a) : (U128)a, mb = nb ? (U128)(-(I128)b) : (U128)b, mag = ma * mb;
    bool neg = (na != nb) && mag != 0;
    U128 lim = neg ? (U128)(-(I128)std::numeric_limits<T>::min()) : (U128)std::numeric_limits<T>::max();
    repr = mag <= lim;
    ea = repr ? (neg ? -(I128)mag : (I128)mag) : (neg ? -(I128)(mag >> 2) : (I128)(mag >> 2));  // value only printed if !repr
  }
  bool threw = false; T r = 0;
  try {
    SafeInt<T> sa(a), sb(b);
    r = op == 0 ? val(sa + sb) : op == 1 ? val(sa - sb) : val(sa * sb);
  } catch (const OverflowError&) { threw = true; }
  ++st.n;
  bool good = repr ? (!threw && (I128)r == ea) : threw;
  if (threw) ++st.ovf; else ++st.ok;
  if (!good) {
    std::string c = std::string(std::numeric_limits<T>::is_signed ? "signed" : "unsigned") + ":" + (op == 0 ? "add" : op == 1 ? "sub" : "mul") + ":" +
        (repr ? (threw ? "representable-but-raised" : "wrong-value") : "overflow-not-raised");
    if (repr && threw && op == 2 && ea == (I128)std::numeric_limits<T>::min()) c += ":product-equals-min";
    st.add_bad(c, std::string(tname<T>()) + " " + s128(a) + " " + "+-*"[op] + " " + s128(b) + " : exact=" + s128(ea) +
          (repr ? " representable" : " NOT representable") + (threw ? ", raised overflow" : ", returned " + s128(r)));
  }
}

// Sub-classify the mismatch for stable keys: which clause failed.
template <class T>
static void enum_small(int op, int chunk, int nchunks, Stat& st) {
  long lo = std::numeric_limits<T>::min(), hi = std::numeric_limits<T>::max();
  long span = hi - lo + 1, per = span / nchunks;
  long a0 = lo + chunk * per, a1 = a0 + per;
  for (long a = a0; a < a1; ++a)
    for (long b = lo; b <= hi; ++b) check_op<T>(op, (T)a, (T)b, st);
}

template <class T>
static std::vector<T> boundary() {
  std::vector<T> v;
  I128 mn = std::numeric_limits<T>::min(), mx = std::numeric_limits<T>::max();
  auto add = [&](I128 x) { if (x >= mn && x <= mx) v.push_back((T)x); };
  for (I128 d = -3; d <= 3; ++d) { add(d); add(mn + d); add(mx + d); add(mx / 2 + d); add(mn / 2 + d); }
  for (int k = 1; k < (int)sizeof(T) * 8; ++k) {
    I128 p = (I128)1 << k;
    for (I128 d = -1; d <= 1; ++d) { add(p + d); add(-p + d); }
  }
  // around sqrt(max)
  I128 s = 1; while ((s + 1) * (s + 1) <= mx) { if (s > ((I128)1 << 33)) break; s = s * 2; }
  long double sq = sqrtl((long double)mx);
  I128 sr = (I128)sq;
  for (I128 d = -2; d <= 2; ++d) { add(sr + d); add(-sr + d); }
  // divisors of max/min neighbourhoods
  for (I128 q : {2, 3, 5, 7, 10, 100, 101, 255, 256, 257, 65535, 65536, 65537})
    for (I128 d = -1; d <= 1; ++d) { add(mx / q + d); add(mn / q + d); add(q); add(-q); }
  return v;
}

template <class T>
static void wide(int op, int block, vf::Rng& rng, Stat& st) {
  if (block == 0) {
    auto bs = boundary<T>();
    for (T a : bs) for (T b : bs) check_op<T>(op, a, b, st);
    return;
  }
  auto bs = boundary<T>();
  for (int i = 0; i < 200000; ++i) {
    T a, b;
    int m = (int)rng.below(4);
    auto rnd = [&]() -> T {
      uint64_t u = rng.next();
      int bits = 1 + (int)rng.below(sizeof(T) * 8);
      if (bits < 64) u &= (((uint64_t)1 << bits) - 1);
      T x = (T)u;
      if (std::numeric_limits<T>::is_signed && rng.chance(1, 2)) x = (T)(0 - (typename std::make_unsigned<T>::type)x);
      return x;
    };
    a = (m & 1) ? bs[rng.below(bs.size())] : rnd();
    b = (m & 2) ? bs[rng.below(bs.size())] : rnd();
    if (op == 2 && rng.chance(1, 2) && b != 0) {
      // aim near the overflow boundary: a ~ max / b
      I128 q = (I128)(rng.chance(1, 2) ? std::numeric_limits<T>::max() : std::numeric_limits<T>::min()) / (I128)b + (I128)rng.range(-1, 1);
      if (q >= (I128)std::numeric_limits<T>::min() && q <= (I128)std::numeric_limits<T>::max()) a = (T)q;
    }
    check_op<T>(op, a, b, st);
  }
}

template <class U, class T>
static void ctor(Stat& st) {
  for (U u : boundary<U>()) {
    I128 e = (I128)u;
    bool repr = e >= (I128)std::numeric_limits<T>::min() && e <= (I128)std::numeric_limits<T>::max();
    bool threw = false; T r = 0;
    try { SafeInt<T> s(u); r = val(s); } catch (const OverflowError&) { threw = true; }
    ++st.n; if (threw) ++st.ovf; else ++st.ok;
    bool good = repr ? (!threw && (I128)r == e) : threw;
    if (!good) {
      st.add_bad(std::string("ctor:") + (repr ? (threw ? "representable-but-raised" : "wrong-value") : "overflow-not-raised"),
        std::string("SafeInt<") + tname<T>() + ">(" + tname<U>() + " " + s128(e) + ")" +
            (repr ? " representable" : " NOT representable") + (threw ? ", raised overflow" : ", returned " + s128(r)));
    }
  }
}

// mixed-type operators: SafeInt<T1> op T2 and T2 op SafeInt<T1>.  The library converts the plain operand to T1 first, so an overflow may be
// raised either because the operand or because the exact result is not representable in T1; a returned value must be the exact result.
template <class T1, class T2>
static void mixed(Stat& st) {
  auto as = boundary<T1>(); auto bs = boundary<T2>();
  I128 mn = std::numeric_limits<T1>::min(), mx = std::numeric_limits<T1>::max();
  size_t sa = std::max<size_t>(1, as.size() / 24), sb = std::max<size_t>(1, bs.size() / 40);
  for (size_t ia = 0; ia < as.size(); ia += sa) for (size_t ib = 0; ib < bs.size(); ib += (ib < 8 || ib + 8 >= bs.size()) ? 1 : sb) for (int op = 0; op < 3; ++op) for (int side = 0; side < 2; ++side) {
    T1 a = as[ia]; T2 b = bs[ib];
    I128 ea = (I128)a, eb = (I128)b;
    I128 x = side == 0 ? ea : eb, y = side == 0 ? eb : ea;
    I128 e = 0; bool wide = false;                        // |operands| < 2^64: only the product can exceed 127 bits (then it fits no T1)
    if (op == 0) e = x + y; else if (op == 1) e = x - y; else wide = __builtin_mul_overflow(x, y, &e);
    bool b_repr = eb >= mn && eb <= mx, r_repr = !wide && e >= mn && e <= mx;
    bool threw = false; T1 r = 0;
    try {
      SafeInt<T1> sa1(a);
      SafeInt<T1> res = side == 0 ? (op == 0 ? sa1 + b : op == 1 ? sa1 - b : sa1 * b) : (op == 0 ? b + sa1 : op == 1 ? b - sa1 : b * sa1);
      r = val(res);
    } catch (const OverflowError&) { threw = true; }
    ++st.n; if (threw) ++st.ovf; else ++st.ok;
    bool good = threw ? (!b_repr || !r_repr) : (r_repr && (I128)r == e);
    if (!good)
      st.add_bad(std::string("mixed:") + (threw ? "representable-but-raised" : (r_repr ? "wrong-value" : "overflow-not-raised")),
                 std::string(side == 0 ? "SafeInt<" : "") + (side == 0 ? tname<T1>() : tname<T2>()) + (side == 0 ? ">(" : " ") + s128(side == 0 ? ea : eb) + (side == 0 ? ") " : " ") + "+-*"[op] + " " +
                     (side == 1 ? "SafeInt<" : "") + (side == 1 ? tname<T1>() : tname<T2>()) + (side == 1 ? ">(" : " ") + s128(side == 1 ? ea : eb) + (side == 1 ? ")" : "") + (threw ? ": raised overflow" : ": returned " + s128(r)) + ", exact " + (wide ? std::string("beyond 127 bits") : s128(e)));
  }
}

template <class T1>
static void mixed_with(int ti, Stat& st) {
  switch (ti) {
    case 0: mixed<T1, signed char>(st); break; case 1: mixed<T1, unsigned char>(st); break;
    case 2: mixed<T1, short>(st); break; case 3: mixed<T1, unsigned short>(st); break;
    case 4: mixed<T1, int>(st); break; case 5: mixed<T1, unsigned>(st); break;
    case 6: mixed<T1, long>(st); break; case 7: mixed<T1, unsigned long>(st); break;
    case 8: mixed<T1, long long>(st); break; case 9: mixed<T1, unsigned long long>(st); break;
  }
}

template <class U>
static void ctor_from(int ti, Stat& st) {
  switch (ti) {
    case 0: ctor<U, signed char>(st); break; case 1: ctor<U, unsigned char>(st); break;
    case 2: ctor<U, short>(st); break; case 3: ctor<U, unsigned short>(st); break;
    case 4: ctor<U, int>(st); break; case 5: ctor<U, unsigned>(st); break;
    case 6: ctor<U, long>(st); break; case 7: ctor<U, unsigned long>(st); break;
    case 8: ctor<U, long long>(st); break; case 9: ctor<U, unsigned long long>(st); break;
  }
}

static const char* TNAMES[] = {"signed char", "unsigned char", "short", "unsigned short", "int", "unsigned",
                               "long", "unsigned long", "long long", "unsigned long long"};

int main(int argc, char** argv) {
  vf::Args A = vf::parse_args(argc, argv);
  std::string mode = A.get("--mode", "enum8");
  for (long c = A.from; c < A.to; ++c) {
    vf::begin_case(c);
    Stat st; std::string desc; vf::Rng rng(A.seed, (uint64_t)c);
    if (mode == "enum8") {
      int chunk = c % 16, op = (c / 16) % 3, ty = (int)(c / 48);
      if (ty == 0) enum_small<signed char>(op, chunk, 16, st); else if (ty == 1) enum_small<unsigned char>(op, chunk, 16, st);
      else continue;
      desc = std::string(ty ? "unsigned char" : "signed char") + " op" + "+-*"[op] + " chunk" + std::to_string(chunk);
    } else if (mode == "enum16") {
      int nch = atoi(A.get("--chunks", "256").c_str());
      int chunk = c % nch, op = (c / nch) % 3, ty = (int)(c / (3 * nch));
      if (ty == 0) enum_small<short>(op, chunk, nch, st); else if (ty == 1) enum_small<unsigned short>(op, chunk, nch, st);
      else continue;
      desc = std::string(ty ? "unsigned short" : "short") + " op" + "+-*"[op] + " chunk" + std::to_string(chunk);
    } else if (mode == "wide") {
      int ty = c % 5, op = (c / 5) % 3, block = (int)(c / 15);
      switch (ty) {
        case 0: wide<int>(op, block, rng, st); break; case 1: wide<long>(op, block, rng, st); break;
        case 2: wide<long long>(op, block, rng, st); break; case 3: wide<unsigned>(op, block, rng, st); break;
        case 4: wide<unsigned long>(op, block, rng, st); break;
      }
      static const char* n[] = {"int", "long", "long long", "unsigned", "unsigned long"};
      desc = std::string(n[ty]) + " op" + "+-*"[op] + " block" + std::to_string(block);
    } else if (mode == "ctor") {
      int ui = c % 10, ti = (int)(c / 10) % 10;
      switch (ui) {
        case 0: ctor_from<signed char>(ti, st); break; case 1: ctor_from<unsigned char>(ti, st); break;
        case 2: ctor_from<short>(ti, st); break; case 3: ctor_from<unsigned short>(ti, st); break;
        case 4: ctor_from<int>(ti, st); break; case 5: ctor_from<unsigned>(ti, st); break;
        case 6: ctor_from<long>(ti, st); break; case 7: ctor_from<unsigned long>(ti, st); break;
        case 8: ctor_from<long long>(ti, st); break; case 9: ctor_from<unsigned long long>(ti, st); break;
      }
      desc = std::string("ctor ") + TNAMES[ui] + "->" + TNAMES[ti];
    } else if (mode == "mixed") {
      int t1 = c % 10, t2 = (int)(c / 10) % 10;
      switch (t1) {
        case 0: mixed_with<signed char>(t2, st); break; case 1: mixed_with<unsigned char>(t2, st); break;
        case 2: mixed_with<short>(t2, st); break; case 3: mixed_with<unsigned short>(t2, st); break;
        case 4: mixed_with<int>(t2, st); break; case 5: mixed_with<unsigned>(t2, st); break;
        case 6: mixed_with<long>(t2, st); break; case 7: mixed_with<unsigned long>(t2, st); break;
        case 8: mixed_with<long long>(t2, st); break; case 9: mixed_with<unsigned long long>(t2, st); break;
      }
      desc = std::string("mixed SafeInt<") + TNAMES[t1] + "> with " + TNAMES[t2];
    }
    vf::J j; j.i("case", c).s("mode", mode).s("desc", desc).i("n", st.n).i("ok", st.ok).i("ovf", st.ovf).i("bad", st.bad);
    std::string cl = "{"; bool f = true;
    for (auto& kv : st.cls) { if (!f) cl += ","; f = false; cl += "\"" + vf::jesc(kv.first) + "\":[" + std::to_string(kv.second.first) + ",\"" + vf::jesc(kv.second.second) + "\"]"; }
    j.raw("classes", cl + "}");
    vf::emit(j);
  }
  return 0;
}
