// C05 monitor: mp::WriteSolFile -> file -> mp::SOLReader2 round trip with an independent data-equality oracle.
#include "solgen.h"
#include "mp/sol.h"
#include "mp/suffix.h"
#include "mp/problem.h"
#include <unistd.h>

using namespace sg;

struct MySol {
  const Sol& s; std::string message_s; mp::SuffixManager sm;
  explicit MySol(const Sol& s_) : s(s_) {}
  int status() const { return s.code; }
  const char* message() const { return message_s.c_str(); }
  int num_options() const { return (int)s.options.size(); }
  long option(int i) const { return s.options[i]; }
  int num_values() const { return (int)s.primals.size(); }
  double value(int i) const { return s.primals[i]; }
  int num_dual_values() const { return (int)s.duals.size(); }
  double dual_value(int i) const { return s.duals[i]; }
  int objno() const { return s.objno + 1; }
  int num_vars() const { return s.nvars; }
  int num_algebraic_cons() const { return s.ncons; }
  const mp::SuffixSet* suffixes(mp::suf::Kind k) const { return &sm.suffixes(k); }
};

static bool close_enough(double w, double r, std::string& why) {
  if (std::isnan(w) || std::isinf(w)) {
    if (std::isnan(w) ? std::isnan(r) : (r == w)) return true;
    why = "nonfinite-read-back-as-different-number"; return false;
  }
  if (w == r) return true;
  if (w == std::floor(w) && std::fabs(w) < 1e15) { why = "integral-value-not-exact"; return false; }
  double tol = 1e-15 * std::fabs(w);
  // 16 significant digits guarantee 5e-16 relative; subnormals lose relative precision by nature of the format
  if (std::fabs(w) < 2.3e-308) tol = 5e-324 * 4;
  if (std::fabs(w - r) <= tol) return true;
  if (std::isinf(r) && std::fabs(w) > 1.797693134862315e308) { why = "finite-value-within-5e-16-of-DBL_MAX-read-back-as-inf"; return false; }
  why = "real-value-off-by-more-than-1e-15"; return false;
}

int main(int argc, char** argv) {
  vf::Args A = vf::parse_args(argc, argv);
  std::string dir = A.get("--dir", ".");
  char path[4096]; snprintf(path, sizeof path, "%s/solrt.%d.sol", dir.c_str(), (int)getpid());
  for (long c = A.from; c < A.to; ++c) {
    vf::begin_case(c);
    vf::Rng r(A.seed, (uint64_t)c);
    bool nonfinite = r.chance(1, 5);
    Sol s = gen(r, nonfinite, 1600);
    // message shaping: blank lines, trailing newline, boundary lengths, CR, backspaces (beyond gen's)
    std::string feature = "plain";
    if (r.chance(1, 8)) { int L[] = {509, 510, 511, 512, 513, 1021, 1022, 1023, 1533}; size_t i = r.below(s.msg.size()); s.msg[i] = std::string(L[r.below(9)], 'a' + (char)r.below(26)); feature = "boundary-length-line"; }
    if (r.chance(1, 8) && s.msg.size() > 1) { s.msg.insert(s.msg.begin() + 1 + r.below(s.msg.size() - 1), ""); feature = "blank-line"; }
    if (r.chance(1, 12)) { size_t i = r.below(s.msg.size()); s.msg[i] += "\r"; feature = "cr-at-line-end"; }
    if (s.vbtol) feature = "vbtol-form";
    if (s.options.empty()) feature = "no-options";
    MySol ms(s);
    for (size_t i = 0; i < s.msg.size(); ++i) { if (i) ms.message_s += "\n"; else ms.message_s += std::string(s.nbs, '\b'); ms.message_s += s.msg[i]; }
    bool trailing_nl = r.chance(1, 3); if (trailing_nl) ms.message_s += "\n";
    // suffixes (output): dense storage, written sparsely by the library
    std::vector<Suf> expect_sufs[4];
    for (auto& f : s.sufs) {
      int cls = f.kind & 3; int n = cls == 0 ? s.nvars : cls == 1 ? s.ncons : cls == 2 ? 3 : 1;
      if (n == 0) continue;
      auto& set = ms.sm.suffixes((mp::suf::Kind)cls);
      if (set.Find(f.name)) continue;
      Suf e = f; e.vals.clear();
      if (f.kind & 4) {
        auto sf = set.Add<double>(f.name, cls | mp::suf::FLOAT | mp::suf::OUTPUT, n, f.table);
        for (auto& v : f.vals) if (v.first < n) { sf.set_value(v.first, v.second); }
        for (int i = 0; i < n; ++i) { double v = sf.value(i); if (v != 0 || std::isnan(v)) e.vals.push_back({i, v}); }
      } else {
        auto sf = set.Add<int>(f.name, cls | mp::suf::OUTPUT, n, f.table);
        for (auto& v : f.vals) if (v.first < n) sf.set_value(v.first, (int)v.second);
        for (int i = 0; i < n; ++i) if (sf.value(i)) e.vals.push_back({i, (double)sf.value(i)});
      }
      expect_sufs[cls].push_back(e);
    }
    // an input-only suffix must not be written
    if (s.nvars > 0 && r.chance(1, 4) && !ms.sm.suffixes(mp::suf::VAR).Find("inonly")) {
      auto sf = ms.sm.suffixes(mp::suf::VAR).Add<int>("inonly", mp::suf::VAR | mp::suf::INPUT, s.nvars); sf.set_value(0, 7);
    }
    std::vector<std::string> bad; std::string exc;
    try { mp::WriteSolFile(path, ms); }
    catch (const std::exception& e) { exc = std::string("writer:") + e.what(); }
    Handler h; h.rng = &r; h.policy = 0; h.hdr.num_vars = s.nvars; h.hdr.num_algebraic_cons = s.ncons;
    int code = -100; std::string emsg;
    if (exc.empty()) {
      mp::NLUtils utils;
      try { auto res = mp::ReadSOLFile(path, h, utils); code = (int)res.first; emsg = res.second; }
      catch (const std::exception& e) { exc = std::string("reader:") + e.what(); }
    }
    bool any_nonfinite = false;
    for (double d : s.duals) any_nonfinite |= !std::isfinite(d);
    for (double d : s.primals) any_nonfinite |= !std::isfinite(d);
    for (int k = 0; k < 4; ++k) for (auto& e : expect_sufs[k]) for (auto& v : e.vals) any_nonfinite |= !std::isfinite(v.second);
    std::string cmp_detail;
    if (!exc.empty()) bad.push_back("exception");
    else if (code != 0) {
      if (!any_nonfinite) bad.push_back("finite-solution-rejected:" + feature);
      // with non-finite data a non-OK code is the accepted outcome; it must carry a message
      else if (emsg.empty()) bad.push_back("rejected-without-message");
    } else {
      // ---- data equality
      std::string why;
      // message
      // expected lines: the message text split at '\n' (a final '\n' does not start a line); CR at a line end is line-end noise;
      // an empty line comes back as the format's escaped form " "
      std::string em;
      { std::string m = ms.message_s.substr(s.nbs); std::vector<std::string> ls; std::string cur;
        for (char ch : m) { if (ch == '\n') { ls.push_back(cur); cur.clear(); } else cur += ch; }
        if (!cur.empty() && cur != "\r") ls.push_back(cur);   // a final segment that is empty or a bare CR is not a line
        if (ls.empty()) ls.push_back("");
        for (auto l : ls) { if (!l.empty() && l.back() == '\r') l.pop_back(); em += (l.empty() ? " " : l) + "\n"; } }
      auto nocr = [](const std::string& t) { std::string o; for (size_t i = 0; i < t.size(); ++i) if (!(t[i] == '\r' && i + 1 < t.size() && t[i + 1] == '\n')) o += t[i]; return o; };
      if (nocr(h.msg) != em) { bad.push_back("message-differs:" + feature); cmp_detail = "expected message " + std::to_string(em.size()) + " bytes, got " + std::to_string(h.msg.size()); }
      if (h.nbs != s.nbs) bad.push_back("backspace-count-differs");
      // options
      if (!h.have_opts) bad.push_back("options-missing");
      else {
        size_t k = s.options.size();
        if (h.opts.options_.size() < 1 || (size_t)h.opts.options_[0] != k) bad.push_back("option-count-differs:" + feature);
        else for (size_t i = 0; i < k; ++i) if (h.opts.options_.size() <= i + 1 || h.opts.options_[i + 1] != s.options[i]) { bad.push_back("option-value-differs:" + feature); break; }
      }
      auto cmpvec = [&](const std::vector<double>& w, const RecVec& rv, const char* name) {
        if ((int)w.size() != rv.offered) { bad.push_back(std::string(name) + "-length-differs:" + feature); return; }
        for (size_t i = 0; i < w.size(); ++i) if (!close_enough(w[i], rv.v[i], why)) { bad.push_back(std::string(name) + ":" + why); cmp_detail = vf::jnum(w[i]) + " -> " + vf::jnum(rv.v[i]); return; }
      };
      cmpvec(s.duals, h.dual, "dual"); cmpvec(s.primals, h.primal, "primal");
      if (h.objno != s.objno) bad.push_back("objno-differs");
      if (h.code != s.code) bad.push_back("solve-code-differs");
      // suffixes: writer order = VAR,CON,OBJ,PROBLEM; within a kind ordered by (name length, name)
      std::vector<Suf> exp;
      for (int k = 0; k < 4; ++k) {
        auto v = expect_sufs[k];
        std::sort(v.begin(), v.end(), [](const Suf& a, const Suf& b) { return a.name.size() != b.name.size() ? a.name.size() < b.name.size() : a.name < b.name; });
        for (auto& e : v) exp.push_back(e);
      }
      if (exp.size() != h.sufs.size()) bad.push_back("suffix-count-differs");
      else for (size_t i = 0; i < exp.size(); ++i) {
        auto& e = exp[i]; auto& g = h.sufs[i];
        if ((e.kind & 7) != (g.kind & 7)) { bad.push_back("suffix-kind-differs"); break; }
        if (e.name != g.name) { bad.push_back("suffix-name-differs"); break; }
        if (e.table != g.table) { bad.push_back("suffix-table-differs"); cmp_detail = "table '" + e.table + "' -> '" + g.table + "'"; break; }
        if (e.vals.size() != g.v.size()) { bad.push_back("suffix-value-count-differs"); break; }
        bool stop = false;
        for (size_t k = 0; k < e.vals.size() && !stop; ++k) {
          if (e.vals[k].first != g.idx[k]) { bad.push_back("suffix-index-differs"); stop = true; }
          else if (!close_enough(e.vals[k].second, g.v[k], why)) { bad.push_back("suffix-value:" + why); cmp_detail = vf::jnum(e.vals[k].second) + " -> " + vf::jnum(g.v[k]); stop = true; }
        }
        if (stop) break;
      }
    }
    // In these two input classes the whole file is misaligned for the reader: report the class, not every downstream symptom.
    if (!bad.empty() && (feature == "no-options" || feature == "vbtol-form")) {
      std::string all; for (auto& b : bad) all += b + " "; cmp_detail = "symptoms: " + all + cmp_detail;
      bad.assign(1, feature == "no-options" ? "writer-emits-Options-header-without-option-count(num_options==0)"
                                             : "writer-cannot-emit-vbtol-form(option[1]==3)");
    }
    vf::J j; j.i("case", c).s("feature", feature).i("code", code).s("exc", exc).b("nonfinite", any_nonfinite).i("nsuf", (long long)h.sufs.size())
        .i("nd", (long long)s.duals.size()).i("np", (long long)s.primals.size()).i("nopt", (long long)s.options.size()).s("emsg", emsg.substr(0, 160)).s("detail", cmp_detail.substr(0, 300));
    std::string bl = "["; for (size_t i = 0; i < bad.size(); ++i) { if (i) bl += ","; bl += "\"" + vf::jesc(bad[i]) + "\""; } bl += "]";
    j.raw("bad", bl);
    if (!bad.empty()) { FILE* f = fopen(path, "rb"); std::string hex; int ch; int n = 0; while (f && (ch = fgetc(f)) != EOF && n++ < 5000) { char t[4]; snprintf(t, 4, "%02x", ch); hex += t; } if (f) fclose(f); j.s("hex", hex); }
    vf::emit(j);
  }
  unlink(path);
  return 0;
}
