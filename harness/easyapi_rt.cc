// C08 monitor: NLModel/NLSolver (matrix "easy" API) -> NL files -> mp::Problem / recording handler,
// and .sol -> NLSolution, against an independent matrix-level oracle (exact dyadic arithmetic).
#include "nlrec.h"
#include "solgen.h"
#include "mp/nl-solver.h"
#include "mp/nl-solver.hpp"
#include "mp/nl-model.h"
#include "mp/problem.h"
extern "C" {
#include "api/c/nl-model-c.h"
#include "api/c/nl-solver-c.h"
}
#include <unistd.h>
#include <fstream>
#include <map>

static std::string slurp(const std::string& p) { std::ifstream f(p, std::ios::binary); return std::string((std::istreambuf_iterator<char>(f)), std::istreambuf_iterator<char>()); }
static std::vector<std::string> read_lines(const std::string& p) { std::vector<std::string> v; std::ifstream f(p); std::string l; while (std::getline(f, l)) v.push_back(l); return v; }

// evaluator for the expression shapes an LP/QP objective can have (sum, *, constants, variables)
static bool eval(mp::NumericExpr e, const std::vector<double>& x, double& out) {
  using namespace mp;
  if (!e) { out = 0; return true; }
  switch (e.kind()) {
    case expr::NUMBER: out = Cast<NumericConstant>(e).value(); return true;
    case expr::VARIABLE: { int i = Cast<Reference>(e).index(); if (i < 0 || i >= (int)x.size()) return false; out = x[i]; return true; }
    case expr::MUL: case expr::ADD: { auto b = Cast<BinaryExpr>(e); double l, r; if (!eval(b.lhs(), x, l) || !eval(b.rhs(), x, r)) return false; out = e.kind() == expr::MUL ? l * r : l + r; return true; }
    case expr::SUM: { auto s = Cast<IteratedExpr>(e); out = 0; for (auto a : s) { double v; if (!eval(a, x, v)) return false; out += v; } return true; }
    case expr::POW2: { double v; if (!eval(Cast<UnaryExpr>(e).arg(), x, v)) return false; out = v * v; return true; }
    default: return false;
  }
}

struct MM {   // the matrix model
  int n = 0, m = 0; std::vector<double> lb, ub; std::vector<int> type; bool have_types = true;
  std::vector<size_t> astart; std::vector<int> aidx; std::vector<double> aval; std::vector<double> rlb, rub;
  int sense = 0; double c0 = 0; std::vector<double> c; bool have_c = true;
  int qfmt = 2; std::vector<size_t> qstart; std::vector<int> qidx; std::vector<double> qval;
  std::vector<int> wx_i; std::vector<double> wx_v; std::vector<int> wy_i; std::vector<double> wy_v;
  std::vector<std::string> cn, rn; std::string objname; bool names = false;
  std::vector<mp::NLSuffix> sufs;
  std::string qshape;
  double obj(const std::vector<double>& x, bool tri_sym) const {
    double v = c0; if (have_c) for (int j = 0; j < n; ++j) v += c[j] * x[j];
    for (int i = 0; i < n; ++i) { size_t e = i + 1 < n ? qstart[i + 1] : qidx.size(); for (size_t p = qstart[i]; p < e; ++p) v += ((tri_sym && qidx[p] != i) ? 1.0 : 0.5) * qval[p] * x[i] * x[qidx[p]]; }
    return v;
  }
};

static double dy(vf::Rng& r, int lim = 16) { return r.range(-4 * lim, 4 * lim) / 4.0; }

static MM gen(vf::Rng& r) {
  MM g; double inf = std::numeric_limits<double>::infinity();
  g.n = r.range(1, 8); g.m = r.chance(1, 6) ? 0 : r.range(1, 5);
  g.have_types = !r.chance(1, 6);
  for (int j = 0; j < g.n; ++j) {
    int t = g.have_types ? (int)r.below(3) : 0;   // 0 cont, 1 general int, 2 binary-like
    g.type.push_back(t ? 1 : 0);
    if (t == 2) { g.lb.push_back(r.chance(1, 8) ? -0.0 : 0.0); g.ub.push_back(1); }
    else { int k = (int)r.below(5); double l = dy(r), u = l + r.range(0, 40) / 4.0; g.lb.push_back(k == 1 || k == 3 ? -inf : l); g.ub.push_back(k == 2 || k == 3 ? inf : u); }
  }
  for (int i = 0; i < g.m; ++i) {
    g.astart.push_back(g.aidx.size());
    std::vector<int> cols; for (int j = 0; j < g.n; ++j) if (r.chance(1, 2)) cols.push_back(j);
    if (r.chance(1, 2)) for (size_t a = cols.size(); a > 1; --a) std::swap(cols[a - 1], cols[r.below(a)]);
    for (int j : cols) { g.aidx.push_back(j); double v; do v = dy(r, 8); while (v == 0 && r.chance(7, 8)); g.aval.push_back(v); }
    int k = (int)r.below(5); double l = dy(r), u = l + r.range(1, 40) / 4.0;
    g.rlb.push_back(k == 1 || k == 3 ? -inf : l); g.rub.push_back(k == 2 || k == 3 ? inf : k == 4 ? l : u);
  }
  g.sense = (int)r.below(2); g.c0 = r.chance(1, 3) ? 0 : dy(r); g.have_c = !r.chance(1, 5);
  for (int j = 0; j < g.n; ++j) g.c.push_back(r.chance(1, 3) ? 0 : dy(r, 8));
  // Hessian shapes
  int shape = (int)r.below(7); static const char* names[] = {"none", "diagonal", "offdiagonal", "upper-triangle", "full-symmetric", "duplicates", "column-only"};
  g.qshape = names[shape]; g.qfmt = 1 + (int)r.below(2);
  std::vector<std::vector<std::pair<int, double>>> rows(g.n);
  auto val = [&]() { double v; do v = r.range(-16, 16) / 2.0; while (v == 0); return v; };
  if (shape == 1) for (int i = 0; i < g.n; ++i) if (r.chance(1, 2)) rows[i].push_back({i, val()});
  if (shape == 2) for (int i = 0; i < g.n; ++i) for (int j = 0; j < g.n; ++j) if (i != j && r.chance(1, 4)) rows[i].push_back({j, val()});
  if (shape == 3) for (int i = 0; i < g.n; ++i) for (int j = i; j < g.n; ++j) if (r.chance(1, 3)) rows[i].push_back({j, val()});
  if (shape == 4) for (int i = 0; i < g.n; ++i) for (int j = i; j < g.n; ++j) if (r.chance(1, 3)) { double v = val(); rows[i].push_back({j, v}); if (i != j) rows[j].push_back({i, v}); }
  if (shape == 5) for (int i = 0; i < g.n; ++i) if (r.chance(1, 2)) { int j = (int)r.below(g.n); rows[i].push_back({j, val()}); rows[i].push_back({j, val()}); if (r.chance(1, 2)) rows[i].push_back({j, val()}); }
  if (shape == 6) { int col = (int)r.below(g.n); for (int i = 0; i < g.n; ++i) if (i != col && r.chance(1, 2)) rows[i].push_back({col, val()}); }   // variables that appear only as a row index
  for (int i = 0; i < g.n; ++i) { g.qstart.push_back(g.qidx.size()); for (auto& e : rows[i]) { g.qidx.push_back(e.first); g.qval.push_back(e.second); } }
  if (g.qidx.empty()) g.qshape = "none";
  for (int j = 0; j < g.n; ++j) if (r.chance(1, 3)) { g.wx_i.push_back(j); g.wx_v.push_back(dy(r)); }
  for (int i = 0; i < g.m; ++i) if (r.chance(1, 3)) { g.wy_i.push_back(i); g.wy_v.push_back(dy(r)); }
  g.names = r.chance(1, 2); g.objname = r.chance(1, 2) ? "total_cost" : "z";
  for (int j = 0; j < g.n; ++j) g.cn.push_back("x" + std::to_string(j) + std::string(r.below(5), 'v'));
  for (int i = 0; i < g.m; ++i) g.rn.push_back("c" + std::to_string(i) + std::string(r.below(5), 'c'));
  int ns = r.range(0, 3);
  for (int s = 0; s < ns; ++s) {
    int kind = (int)r.below(4); bool fl = r.chance(1, 2); int sz = kind == 0 ? g.n : kind == 1 ? g.m : 1;
    std::vector<double> v(sz); for (auto& x : v) x = r.chance(1, 2) ? 0 : (fl ? dy(r) : (double)r.range(-5, 9));
    g.sufs.push_back(mp::NLSuffix("suf" + std::to_string(s) + (fl ? "d" : "i"), kind | (fl ? 4 : 0), v));
  }
  return g;
}

int main(int argc, char** argv) {
  vf::Args A = vf::parse_args(argc, argv);
  std::string dir = A.get("--dir", "."), fake = A.get("--fake-solver", "");
  char stubc[4096]; snprintf(stubc, sizeof stubc, "%s/easy.%d", dir.c_str(), (int)getpid()); std::string stub = stubc;
  for (long c = A.from; c < A.to; ++c) {
    vf::begin_case(c);
    vf::Rng r(A.seed, (uint64_t)c);
    MM g = gen(r);
    std::vector<std::string> bad; std::string detail;
    auto fail = [&](const std::string& k, const std::string& d = "") { bad.push_back(k); if (detail.empty()) detail = k + ": " + d; };
    mp::NLModel mdl("verif_easy");
    mdl.SetCols({g.n, g.lb.data(), g.ub.data(), g.have_types ? g.type.data() : nullptr});
    std::vector<const char*> cnp, rnp; for (auto& s : g.cn) cnp.push_back(s.c_str()); for (auto& s : g.rn) rnp.push_back(s.c_str());
    if (g.names) { mdl.SetColNames(cnp.data()); if (g.m) mdl.SetRowNames(rnp.data()); mdl.SetObjName(g.objname.c_str()); }
    mdl.SetRows(g.m, g.rlb.data(), g.rub.data(), {g.m, NLW2_MatrixFormatRowwise, g.aidx.size(), g.astart.data(), g.aidx.data(), g.aval.data()});
    mdl.SetLinearObjective(g.sense ? NLW2_ObjSenseMaximize : NLW2_ObjSenseMinimize, g.c0, g.have_c ? g.c.data() : nullptr);
    if (!g.qidx.empty()) mdl.SetHessian((NLW2_HessianFormat)g.qfmt, {g.n, NLW2_MatrixFormatRowwise, g.qidx.size(), g.qstart.data(), g.qidx.data(), g.qval.data()});
    if (!g.wx_i.empty()) mdl.SetWarmstart({(int)g.wx_i.size(), g.wx_i.data(), g.wx_v.data()});
    if (!g.wy_i.empty()) mdl.SetDualWarmstart({(int)g.wy_i.size(), g.wy_i.data(), g.wy_v.data()});
    for (auto& s : g.sufs) mdl.AddSuffix(s);
    bool text = r.chance(1, 2), comments = r.chance(1, 2);
    NLW2_NLOptionsBasic_C opts = NLW2_MakeNLOptionsBasic_C_Default(); opts.n_text_mode_ = text; opts.want_nl_comments_ = comments;
    mp::NLUtils utils;
    // (1) the permutation the writer reports
    mp::NLModel::PreprocessData pd;
    for (const char* ext : {".nl", ".col", ".row", ".sol"}) unlink((stub + ext).c_str());
    std::string werr = mdl.WriteNL(stub, opts, utils, pd);
    if (!werr.empty()) fail("WriteNL-reported-error", werr);
    bool perm_ok = (int)pd.vperm_.size() == g.n && (int)pd.vperm_inv_.size() == g.n;
    if (perm_ok) { std::vector<int> seen(g.n, 0); for (int j = 0; j < g.n; ++j) { int p = pd.vperm_[j]; if (p < 0 || p >= g.n || seen[p]++ || pd.vperm_inv_[p] != j) perm_ok = false; } }
    if (!perm_ok) fail("reported-permutation-is-not-a-bijection");
    // (2) NLSolver path writes the same files
    // half of the cases reuse one long-lived NLSolver for model after model (different sizes): nothing of an earlier model may survive
    static mp::NLUtils shared_utils; static mp::NLSolver shared_solver(&shared_utils);
    mp::NLSolver fresh_solver(&utils); bool reuse = r.chance(1, 2);
    mp::NLSolver& solver = reuse ? shared_solver : fresh_solver; solver.SetFileStub(stub); solver.SetNLOptions(opts);
    const mp::NLModel& cmdl = mdl; if (!solver.LoadModel(cmdl)) fail("LoadModel-failed", solver.GetErrorMessage());
    long events = 0; int nonlin_int = 0;
    if (perm_ok && bad.empty()) {
      auto& P = pd.vperm_;
      // ---- read back into mp::Problem
      mp::Problem p; std::string rerr;
      try { mp::ReadNLFile(stub + ".nl", p, 0); } catch (const std::exception& e) { rerr = e.what(); }
      if (!rerr.empty()) fail("written-NL-rejected-by-reader", rerr);
      else {
        if (p.num_vars() != g.n || p.num_algebraic_cons() != g.m || p.num_objs() != 1) fail("dimensions-differ");
        else {
          for (int j = 0; j < g.n; ++j) {
            auto v = p.var(P[j]);
            if (v.lb() != g.lb[j] || v.ub() != g.ub[j]) fail("bounds-not-at-permuted-position", "var " + std::to_string(j));
            bool isint = v.type() == mp::var::INTEGER;
            if (isint != (g.type[j] != 0)) fail(std::string("integrality-not-at-permuted-position:hessian-") + g.qshape, "var " + std::to_string(j) + " orig " + (g.type[j] ? "int" : "cont") + " read " + (isint ? "int" : "cont"));
          }
          auto o = p.obj(0);
          if ((o.type() == mp::obj::MAX) != (g.sense != 0)) fail("objective-sense-differs");
          for (int t = 0; t < 24; ++t) {
            std::vector<double> x(g.n), xnl(g.n); for (int j = 0; j < g.n; ++j) { x[j] = t == 0 ? 0 : r.range(-16, 16) / 2.0; xnl[P[j]] = x[j]; }
            double v = 0, nlv = 0; for (auto term : o.linear_expr()) v += term.coef() * xnl[term.var_index()];
            if (!eval(o.nonlinear_expr(), xnl, nlv)) { fail("objective-has-unexpected-expression-shape"); break; }
            v += nlv;
            double want = g.obj(x, false), want_tri = g.obj(x, true);
            bool ok = v == want || (g.qfmt == 1 && v == want_tri);
            if (!ok) { fail(std::string("objective-value-differs:hessian-") + g.qshape + (g.qfmt == 1 ? ":triangular" : ":square"), "at test point " + std::to_string(t) + " NL " + vf::jnum(v) + " matrix " + vf::jnum(want)); break; }
            for (int i = 0; i < g.m; ++i) {
              double rv = 0; for (auto term : p.algebraic_con(i).linear_expr()) rv += term.coef() * xnl[term.var_index()];
              size_t e = i + 1 < g.m ? g.astart[i + 1] : g.aidx.size(); double wv = 0; for (size_t q = g.astart[i]; q < e; ++q) wv += g.aval[q] * x[g.aidx[q]];
              if (rv != wv) { fail("row-value-differs", "row " + std::to_string(i)); break; }
              if (p.algebraic_con(i).nonlinear_expr()) { fail("row-has-nonlinear-part"); break; }
            }
          }
          for (int i = 0; i < g.m; ++i) if (p.algebraic_con(i).lb() != g.rlb[i] || p.algebraic_con(i).ub() != g.rub[i]) fail("row-range-differs", "row " + std::to_string(i));
        }
      }
      // ---- recording handler: warm starts, suffixes follow their items
      nr::Rec rec; try { mp::ReadNLFile(stub + ".nl", rec, 0); rec.finish_ok(); } catch (const std::exception& e) { fail("written-NL-rejected-by-reader", e.what()); }
      events = rec.n_events;
      for (auto& v : rec.viol) fail("reader-notification-inconsistent:" + v);
      if ((rec.h.format == mp::NLHeader::TEXT) != text) fail("format-option-ignored");
      std::map<std::string, std::string> got;   // key -> value string
      for (auto& l : rec.lines) {
        if (l[0] == 'x' || l[0] == 'd') { size_t a = l.find(' '), b2 = l.find(' ', a + 1); got[l.substr(0, b2)] = l.substr(b2 + 1); }
        if (l[0] == 'S') { size_t a = l.find(' '), b2 = l.find(' ', a + 1), c2 = l.find(' ', b2 + 1); std::string head = l.substr(0, c2 == std::string::npos ? l.size() : c2);
          std::string rest = c2 == std::string::npos ? "" : l.substr(c2 + 1); size_t q = 0; while (q < rest.size()) { size_t e = rest.find(' ', q); if (e == std::string::npos) e = rest.size(); std::string kv = rest.substr(q, e - q); size_t col = kv.find(':'); got[head + " " + kv.substr(0, col)] = kv.substr(col + 1); q = e + 1; } got[head] = "present"; }
      }
      std::map<std::string, std::string> want;
      for (size_t k = 0; k < g.wx_i.size(); ++k) want["x " + std::to_string(P[g.wx_i[k]])] = nr::dbits(g.wx_v[k]);
      for (size_t k = 0; k < g.wy_i.size(); ++k) want["d " + std::to_string(g.wy_i[k])] = nr::dbits(g.wy_v[k]);
      for (auto& s : g.sufs) {
        bool any = false; std::string head = std::string("S") + ((s.kind_ & 4) ? "d" : "i") + " " + std::to_string(s.kind_ & 3) + " " + s.name_;
        for (size_t i = 0; i < s.values_.size(); ++i) if (s.values_[i]) { any = true; want[head + " " + std::to_string((s.kind_ & 3) == 0 ? P[i] : (int)i)] = nr::dbits(s.values_[i]); }
        if (any) want[head] = "present";
      }
      for (auto& kv : want) { auto it = got.find(kv.first); if (it == got.end()) fail("warmstart-or-suffix-entry-missing", kv.first); else if (it->second != kv.second) fail("warmstart-or-suffix-value-at-wrong-item", kv.first + " want " + kv.second + " got " + it->second); }
      for (auto& kv : got) if (!want.count(kv.first)) fail("unexpected-warmstart-or-suffix-entry", kv.first);
      // ---- names
      if (g.names) {
        auto cl = read_lines(stub + ".col"), rw = read_lines(stub + ".row");
        std::vector<std::string> wc(g.n); for (int j = 0; j < g.n; ++j) wc[P[j]] = g.cn[j];
        if (cl != wc) fail("column-names-do-not-follow-their-variables");
        if (g.m) { std::vector<std::string> wr = g.rn; wr.push_back(g.objname); if (rw != wr) fail("row-names-differ"); }
      }
      // ---- solution: values distinct per NL position
      sg::Sol s; s.msg = {"fake 1.0: optimal solution"}; s.options = {1, 1, 0}; s.ncons = g.m; s.nvars = g.n;
      bool with_x = !r.chance(1, 8), with_y = g.m > 0 && r.chance(3, 4);
      std::vector<double> xnl(g.n); for (int k = 0; k < g.n; ++k) xnl[k] = r.range(-16, 16) / 2.0 + (k % 2 ? 0.25 : 0);
      if (with_x) s.primals = xnl; if (with_y) for (int i = 0; i < g.m; ++i) s.duals.push_back(50 + i + 0.5);
      s.objno = 0; s.code = r.range(0, 599);
      sg::Suf sv; sv.kind = 0; sv.name = "vstat"; for (int k = 0; k < g.n; ++k) if (r.chance(1, 2)) sv.vals.push_back({k, (double)(k + 1)});
      sg::Suf sc; sc.kind = 1 | 4; sc.name = "cdual2"; for (int i = 0; i < g.m; ++i) if (r.chance(1, 2)) sc.vals.push_back({i, i + 0.25});
      if (!sv.vals.empty()) s.sufs.push_back(sv); if (!sc.vals.empty()) s.sufs.push_back(sc);
      std::string solbytes = sg::encode_text(s);
      mp::NLSolution sol;
      bool via_solve = !fake.empty() && r.chance(1, 4);
      if (via_solve) { sg::write_file(stub + ".presol", solbytes); sol = solver.Solve(mdl, "sh " + fake, ""); unlink((stub + ".presol").c_str()); }
      else { sg::write_file(stub + ".sol", solbytes); sol = solver.ReadSolution(); if (sol.x_.size()) sol.obj_val_ = mdl.ComputeObjValue(sol.x_.data()); }
      if (!sol) fail("solution-not-read", solver.GetErrorMessage());
      else {
        if (sol.solve_result_ != s.code) fail("solve-result-differs");
        if (with_x) {
          if ((int)sol.x_.size() != g.n) fail("x-length-differs");
          else { for (int j = 0; j < g.n; ++j) if (sol.x_[j] != xnl[P[j]]) { fail("solution-not-in-caller-variable-order", "x[" + std::to_string(j) + "]=" + vf::jnum(sol.x_[j]) + " want " + vf::jnum(xnl[P[j]])); break; }
                 double want = g.obj(sol.x_, false), want_tri = g.obj(sol.x_, true);
                 if (!(sol.obj_val_ == want || (g.qfmt == 1 && sol.obj_val_ == want_tri))) fail(std::string("recomputed-objective-value-wrong:hessian-") + g.qshape + (g.have_c ? "" : ":no-linear-coefficients"), vf::jnum(sol.obj_val_) + " want " + vf::jnum(want)); }
        } else if (!sol.x_.empty()) fail("x-returned-although-absent");
        if (with_y) { if ((int)sol.y_.size() != g.m) fail("y-length-differs"); else for (int i = 0; i < g.m; ++i) if (sol.y_[i] != s.duals[i]) { fail("duals-differ"); break; } }
        for (auto* f : {&sv, &sc}) if (!f->vals.empty()) {
          auto* rs = sol.suffixes_.Find(f->name, f->kind);
          if (!rs) { fail("solution-suffix-missing", f->name); continue; }
          std::vector<double> wv((f->kind & 3) == 0 ? g.n : g.m, 0.0);
          for (auto& kv : f->vals) wv[(f->kind & 3) == 0 ? pd.vperm_inv_[kv.first] : kv.first] = kv.second;
          if (rs->values_ != wv) fail("solution-suffix-not-in-caller-order", f->name);
        }
      }
    }
    // (2b) hostile solution files through NLSolver::ReadSolution (its own handler un-permutes and sizes the vectors): suffix indices at and
    //      beyond the item count, negative ones, wrong sizes, truncation - never a memory error (ASan/UBSan are the oracle of this step)
    if (perm_ok && bad.empty()) {
      sg::Sol hs; hs.msg = {"hostile"}; hs.options = {1, 1, 0}; hs.ncons = g.m; hs.nvars = g.n; hs.objno = 0; hs.code = 0;
      for (int k = 0; k < g.n; ++k) hs.primals.push_back(k + 0.5); for (int i = 0; i < g.m; ++i) hs.duals.push_back(i + 0.25);
      static const int offs[] = {0, 1, -1, 2, 1000000, -1000000};
      int nsuf = r.range(1, 3);
      for (int q = 0; q < nsuf; ++q) {
        sg::Suf hf; hf.kind = (int)r.below(4) | (r.chance(1, 2) ? 4 : 0); hf.name = "h" + std::to_string(q);
        int cnt = (hf.kind & 3) == 0 ? g.n : (hf.kind & 3) == 1 ? g.m : 1;
        int idx = r.chance(2, 3) ? cnt + offs[r.below(6)] : (cnt ? (int)r.below(cnt) : 0);
        if (r.chance(1, 6)) idx = (hf.kind & 3) == 0 ? cnt : idx;            // the first index past the end is the classic one
        hf.vals.push_back({idx, 7.0}); if (cnt > 0 && r.chance(1, 2)) hf.vals.push_back({(int)r.below(cnt), 3.0});
        hs.sufs.push_back(hf);
      }
      std::string hb = sg::encode_text(hs);
      int mut = (int)r.below(5);
      if (mut == 1 && hb.size() > 8) hb.resize(r.range(1, (int)hb.size() - 1));                                    // truncated
      if (mut == 2) { hs.nvars = g.n + r.range(1, 3); hb = sg::encode_text(hs); }                                  // declares other sizes
      if (mut == 3 && !hb.empty()) for (int q = r.range(1, 4); q--;) hb[r.below(hb.size())] = (char)r.range(1, 255);   // byte noise
      sg::write_file(stub + ".sol", hb);
      mp::NLSolution hsol = solver.ReadSolution();
      (void)hsol;     // judged by the sanitizers only: the statement promises nothing about the content returned for a malformed file
      unlink((stub + ".sol").c_str());
    }
    // (3) the C interface (nl-model-c / nl-solver-c) is a thin wrapper: the same model given through it must write the same files and
    //     return the same solution as the C++ interface
    bool c_api = false;
    if (perm_ok && bad.empty()) {
      c_api = true;
      std::string stub2 = stub + "c";
      for (const char* ext : {".nl", ".col", ".row", ".sol"}) unlink((stub2 + ext).c_str());
      NLW2_NLModel_C cm = NLW2_MakeNLModel_C("verif_easy");
      NLW2_SetCols_C(&cm, g.n, g.lb.data(), g.ub.data(), g.have_types ? g.type.data() : nullptr);
      if (g.names) { NLW2_SetColNames_C(&cm, cnp.data()); if (g.m) NLW2_SetRowNames_C(&cm, rnp.data()); NLW2_SetObjName_C(&cm, g.objname.c_str()); }
      NLW2_SetRows_C(&cm, g.m, g.rlb.data(), g.rub.data(), NLW2_MatrixFormatRowwise, g.aidx.size(), g.astart.data(), g.aidx.data(), g.aval.data());
      NLW2_SetLinearObjective_C(&cm, g.sense ? NLW2_ObjSenseMaximize : NLW2_ObjSenseMinimize, g.c0, g.have_c ? g.c.data() : nullptr);
      if (!g.qidx.empty()) NLW2_SetHessian_C(&cm, (NLW2_HessianFormat)g.qfmt, g.n, g.qidx.size(), g.qstart.data(), g.qidx.data(), g.qval.data());
      if (!g.wx_i.empty()) NLW2_SetWarmstart_C(&cm, {(int)g.wx_i.size(), g.wx_i.data(), g.wx_v.data()});
      if (!g.wy_i.empty()) NLW2_SetDualWarmstart_C(&cm, {(int)g.wy_i.size(), g.wy_i.data(), g.wy_v.data()});
      for (auto& sf : g.sufs) { NLW2_NLSuffix_C sc{sf.name_.c_str(), sf.table_.c_str(), sf.kind_, (int)sf.values_.size(), sf.values_.data()}; NLW2_AddSuffix_C(&cm, sc); }
      NLW2_NLSolver_C cs = NLW2_MakeNLSolver_C(nullptr);
      NLW2_SetFileStub_C(&cs, stub2.c_str()); NLW2_SetNLOptions_C(&cs, opts);
      if (!NLW2_LoadNLModel_C(&cs, &cm)) fail("c-api:LoadNLModel-failed", NLW2_GetErrorMessage_C(&cs));
      else {
        for (const char* ext : {".nl", ".col", ".row"}) {
          std::string a = slurp(stub + ext), b = slurp(stub2 + ext);
          if (a != b) { size_t q = 0; while (q < a.size() && q < b.size() && a[q] == b[q]) ++q;
            size_t ls = a.rfind('\n', q ? q - 1 : 0); ls = ls == std::string::npos ? 0 : ls + 1;
            std::string la = a.substr(ls, std::min<size_t>(60, a.size() - ls)), lb2 = b.substr(std::min(ls, b.size()), std::min<size_t>(60, b.size() - std::min(ls, b.size())));
            for (auto* t : {&la, &lb2}) { size_t e = t->find('\n'); if (e != std::string::npos) t->resize(e); }
            char seg = 0; for (size_t z = ls + 1; z-- > 0;) { if ((z == 0 || a[z - 1] == '\n') && z < a.size() && strchr("CLOVSdxrbkJG", a[z])) { seg = a[z]; break; } }
            fail(std::string("c-api:written-file-differs-from-c++-interface:") + ext + (text && seg ? std::string(":segment-") + seg : ""), "first difference at byte " + std::to_string(q) + ": c++ '" + vf::jesc(la) + "' c '" + vf::jesc(lb2) + "'"); } }
        double xs = 0; std::vector<double> xt(g.n); for (int j2 = 0; j2 < g.n; ++j2) xt[j2] = (j2 % 5) - 2 + 0.5 * (j2 % 3);
        if (NLW2_ComputeObjValue_C(&cm, xt.data()) != mdl.ComputeObjValue(xt.data())) fail("c-api:ComputeObjValue-differs"); (void)xs;
        std::string sb = slurp(stub + ".sol");
        if (!sb.empty()) {
          sg::write_file(stub2 + ".sol", sb);
          mp::NLSolution s1 = solver.ReadSolution();       // same bytes through both interfaces
          NLW2_NLSolution_C s2 = NLW2_ReadSolution_C(&cs);
          if (s1.solve_result_ != s2.solve_result_) fail("c-api:solve-result-differs", std::to_string(s1.solve_result_) + " vs " + std::to_string(s2.solve_result_));
          else if (s1.solve_result_ > -2) {
            if ((int)s1.x_.size() != s2.n_primal_values_ || !std::equal(s1.x_.begin(), s1.x_.end(), s2.x_)) fail("c-api:primal-values-differ");
            if ((int)s1.y_.size() != s2.n_dual_values_ || !std::equal(s1.y_.begin(), s1.y_.end(), s2.y_)) fail("c-api:dual-values-differ");
            if (s1.solve_message_ != std::string(s2.solve_message_ ? s2.solve_message_ : "")) fail("c-api:solve-message-differs");
            if ((int)s1.suffixes_.size() != s2.nsuf_) fail("c-api:number-of-solution-suffixes-differs", std::to_string(s1.suffixes_.size()) + " vs " + std::to_string(s2.nsuf_));
            else for (int q = 0; q < s2.nsuf_; ++q) {
              const NLW2_NLSuffix_C& cf = s2.suffixes_[q];
              auto* rs = s1.suffixes_.Find(cf.name_ ? cf.name_ : "", cf.kind_);
              if (!rs) { fail("c-api:solution-suffix-unknown-to-c++-interface", cf.name_ ? cf.name_ : "(null)"); continue; }
              if ((int)rs->values_.size() != cf.numval_ || !std::equal(rs->values_.begin(), rs->values_.end(), cf.values_)) fail("c-api:solution-suffix-values-differ", cf.name_);
            }
          }
        }
      }
      NLW2_DestroyNLSolver_C(&cs); NLW2_DestroyNLModel_C(&cm);
      for (const char* ext : {".nl", ".col", ".row", ".sol"}) unlink((stub2 + ext).c_str());
    }
    vf::J j; j.i("case", c).b("c_api", c_api).b("solver_reused", reuse).i("n", g.n).i("m", g.m).s("qshape", g.qshape).i("qfmt", g.qfmt).b("text", text).b("names", g.names).i("nsuf", (long long)g.sufs.size()).i("events", events).s("detail", detail.substr(0, 500));
    std::sort(bad.begin(), bad.end()); bad.erase(std::unique(bad.begin(), bad.end()), bad.end());
    std::string bl = "["; for (size_t i = 0; i < bad.size(); ++i) { if (i) bl += ","; bl += "\"" + vf::jesc(bad[i]) + "\""; } bl += "]";
    j.raw("bad", bl);
    vf::emit(j);
  }
  for (const char* ext : {".nl", ".col", ".row", ".sol", ".slc", ".unv", ".fix", ".adj"}) unlink((stub + ext).c_str());
  return 0;
}
