// C18 monitor: mp::Equal / std::hash<mp::Expr> against an independent shadow-tree oracle.
#include "vfh.h"
#include "mp/expr.h"
#include "mp/error.h"
#include <set>
#include <map>
#include <functional>

using namespace mp;
namespace ex = mp::expr;

struct Sh {
  int kind = 0;
  double num = 0; int idx = 0; std::string s; int fn = -1; bool bval = false;
  std::vector<double> slopes, bps;
  std::vector<Sh> a;
};

static bool same_double(double x, double y) { return x == y || (std::isnan(x) && std::isnan(y)); }

static bool sh_equal(const Sh& x, const Sh& y) {
  if (x.kind != y.kind) return false;
  if (x.kind == ex::NUMBER && !same_double(x.num, y.num)) return false;
  if (x.kind == ex::BOOL && x.bval != y.bval) return false;
  if ((x.kind == ex::VARIABLE || x.kind == ex::COMMON_EXPR) && x.idx != y.idx) return false;
  if (x.kind == ex::STRING && x.s != y.s) return false;
  if (x.kind == ex::CALL && x.fn != y.fn) return false;
  if (x.kind == ex::PLTERM) {
    if (x.slopes.size() != y.slopes.size() || x.bps.size() != y.bps.size()) return false;
    for (size_t i = 0; i < x.slopes.size(); ++i) if (!same_double(x.slopes[i], y.slopes[i])) return false;
    for (size_t i = 0; i < x.bps.size(); ++i) if (!same_double(x.bps[i], y.bps[i])) return false;
  }
  if (x.a.size() != y.a.size()) return false;
  for (size_t i = 0; i < x.a.size(); ++i) if (!sh_equal(x.a[i], y.a[i])) return false;
  return true;
}

static size_t sh_size(const Sh& x) { size_t n = 1; for (auto& c : x.a) n += sh_size(c); return n; }
static void sh_kinds(const Sh& x, std::set<int>& k) { k.insert(x.kind); for (auto& c : x.a) sh_kinds(c, k); }

struct Gen {
  vf::Rng& r; bool with_nan; bool with_ifsym;
  int nfun = 6;
  double constant() {
    if (with_nan && r.chance(1, 25)) {
      if (r.chance(1, 2)) return std::numeric_limits<double>::quiet_NaN();
      uint64_t u = 0x7ff0000000000000ULL | (r.next() & 0x000fffffffffffffULL) | 1 | (r.chance(1, 2) ? 0x8000000000000000ULL : 0);
      double d; memcpy(&d, &u, 8); return d;   // NaN with a random payload/sign
    }
    double d = vf::hostile_double(r, false);
    if (r.chance(1, 20)) d = r.chance(1, 2) ? std::numeric_limits<double>::infinity() : -std::numeric_limits<double>::infinity();
    return d;
  }
  std::string str() {
    static const char* pool[] = {"", "a", "abc", "abd", "ab", "hello world", "x'y", "\xc3\xa9t\xc3\xa9", "a\nb", "0", "abc "};
    if (r.chance(1, 4)) { std::string s; int n = r.range(0, 40); for (int i = 0; i < n; ++i) s += (char)r.range(1, 255); return s; }
    return pool[r.below(sizeof pool / sizeof *pool)];
  }
  Sh ref() { Sh s; s.kind = r.chance(3, 4) ? ex::VARIABLE : ex::COMMON_EXPR; s.idx = r.range(0, 6); return s; }
  Sh num(int d) {
    Sh s;
    int c = d <= 0 ? (int)r.below(2) : (int)r.below(13);
    switch (c) {
      case 0: s.kind = ex::NUMBER; s.num = constant(); break;
      case 1: return ref();
      case 2: s.kind = r.range(ex::FIRST_UNARY, ex::LAST_UNARY); s.a.push_back(num(d - 1)); break;
      case 3: case 4: s.kind = r.range(ex::FIRST_BINARY, ex::LAST_BINARY); s.a.push_back(num(d - 1)); s.a.push_back(num(d - 1)); break;
      case 5: s.kind = ex::IF; s.a.push_back(logical(d - 1)); s.a.push_back(num(d - 1)); s.a.push_back(num(d - 1)); break;
      case 6: {
        s.kind = ex::PLTERM; int nb = r.range(1, 5);
        double b = r.range(-20, 20) / 2.0;
        for (int i = 0; i < nb; ++i) { s.bps.push_back(b); b += r.range(1, 8) / 2.0; }
        for (int i = 0; i <= nb; ++i) s.slopes.push_back(r.chance(1, 6) ? constant() : r.range(-8, 8) / 2.0);
        s.a.push_back(ref()); break;
      }
      case 7: {
        s.kind = ex::CALL; s.fn = r.range(0, nfun - 1); int n = r.range(0, 4);
        for (int i = 0; i < n; ++i) s.a.push_back(r.chance(1, 3) ? sym(d - 1) : num(d - 1));
        break;
      }
      case 8: { s.kind = r.chance(1, 2) ? ex::MIN : ex::MAX; int n = r.range(1, 4); for (int i = 0; i < n; ++i) s.a.push_back(num(d - 1)); break; }
      case 9: { s.kind = ex::SUM; int n = r.range(0, 5); for (int i = 0; i < n; ++i) s.a.push_back(num(d - 1)); break; }
      case 10: { s.kind = ex::NUMBEROF; int n = r.range(1, 4); for (int i = 0; i < n; ++i) s.a.push_back(num(d - 1)); break; }
      case 11: { s.kind = ex::COUNT; int n = r.range(0, 4); for (int i = 0; i < n; ++i) s.a.push_back(logical(d - 1)); break; }
      case 12: {
        if (!r.chance(1, 4)) return num(d);  // keep symbolic numberof rare: Equal refuses it
        s.kind = ex::NUMBEROF_SYM; int n = r.range(1, 3); for (int i = 0; i < n; ++i) s.a.push_back(sym(d - 1)); break;
      }
    }
    return s;
  }
  Sh count_expr(int d) { Sh s; s.kind = ex::COUNT; int n = r.range(0, 4); for (int i = 0; i < n; ++i) s.a.push_back(logical(d - 1)); return s; }
  Sh logical(int d) {
    Sh s;
    int c = d <= 0 ? (int)r.below(2) : (int)r.below(9);
    switch (c) {
      case 0: s.kind = ex::BOOL; s.bval = r.chance(1, 2); break;
      case 1: s.kind = r.range(ex::FIRST_RELATIONAL, ex::LAST_RELATIONAL); s.a.push_back(num(d - 1)); s.a.push_back(num(d - 1)); break;
      case 2: s.kind = ex::NOT; s.a.push_back(logical(d - 1)); break;
      case 3: case 4: s.kind = r.range(ex::FIRST_BINARY_LOGICAL, ex::LAST_BINARY_LOGICAL); s.a.push_back(logical(d - 1)); s.a.push_back(logical(d - 1)); break;
      case 5: s.kind = r.range(ex::FIRST_LOGICAL_COUNT, ex::LAST_LOGICAL_COUNT); s.a.push_back(num(d - 1)); s.a.push_back(count_expr(d - 1)); break;
      case 6: s.kind = ex::IMPLICATION; s.a.push_back(logical(d - 1)); s.a.push_back(logical(d - 1)); s.a.push_back(logical(d - 1)); break;
      case 7: { s.kind = r.range(ex::FIRST_ITERATED_LOGICAL, ex::LAST_ITERATED_LOGICAL); int n = r.range(0, 4); for (int i = 0; i < n; ++i) s.a.push_back(logical(d - 1)); break; }
      case 8: { s.kind = r.range(ex::FIRST_PAIRWISE, ex::LAST_PAIRWISE); int n = r.range(0, 4); for (int i = 0; i < n; ++i) s.a.push_back(num(d - 1)); break; }
    }
    return s;
  }
  // symbolic argument: string literal, symbolic if, or numeric
  Sh sym(int d) {
    Sh s;
    int c = (int)r.below(with_ifsym && d > 0 ? 4 : 3);
    if (c == 0) return num(d);
    if (c < 3) { s.kind = ex::STRING; s.s = str(); return s; }
    s.kind = ex::IFSYM; s.a.push_back(logical(d - 1)); s.a.push_back(sym(d - 1)); s.a.push_back(sym(d - 1));
    return s;
  }
};

struct Mat {
  ExprFactory f; std::vector<Function> funcs;
  Mat() {
    funcs.push_back(f.AddFunction("f", 2));
    funcs.push_back(f.AddFunction("g", -1, func::SYMBOLIC));
    funcs.push_back(f.AddFunction("f2", 2));
    funcs.push_back(f.AddFunction("", 0));
    // distinct functions that share a name (same and different type): identity, not the name, distinguishes calls
    funcs.push_back(f.AddFunction("g", -1));
    funcs.push_back(f.AddFunction("f", 2));
  }
  Expr any(const Sh& s) {
    if (s.kind == ex::STRING) return f.MakeStringLiteral(fmt::StringRef(s.s.data(), s.s.size()));
    if (s.kind == ex::IFSYM) return f.MakeSymbolicIf(logical(s.a[0]), any(s.a[1]), any(s.a[2]));
    if (s.kind >= ex::FIRST_LOGICAL && s.kind <= ex::LAST_LOGICAL) return logical(s);
    return num(s);
  }
  NumericExpr num(const Sh& s) {
    ex::Kind k = (ex::Kind)s.kind;
    if (k == ex::NUMBER) return f.MakeNumericConstant(s.num);
    if (k == ex::VARIABLE) return f.MakeVariable(s.idx);
    if (k == ex::COMMON_EXPR) return f.MakeCommonExpr(s.idx);
    if (k >= ex::FIRST_UNARY && k <= ex::LAST_UNARY) return f.MakeUnary(k, num(s.a[0]));
    if (k >= ex::FIRST_BINARY && k <= ex::LAST_BINARY) return f.MakeBinary(k, num(s.a[0]), num(s.a[1]));
    if (k == ex::IF) return f.MakeIf(logical(s.a[0]), num(s.a[1]), num(s.a[2]));
    if (k == ex::PLTERM) {
      auto b = f.BeginPLTerm((int)s.bps.size());
      for (size_t i = 0; i < s.bps.size(); ++i) { b.AddSlope(s.slopes[i]); b.AddBreakpoint(s.bps[i]); }
      b.AddSlope(s.slopes.back());
      NumericExpr r = num(s.a[0]);
      return f.EndPLTerm(b, Cast<Reference>(r));
    }
    if (k == ex::CALL) {
      std::vector<Expr> args; for (auto& c : s.a) args.push_back(any(c));
      auto b = f.BeginCall(funcs[s.fn], (int)args.size());
      for (auto& e : args) b.AddArg(e);
      return f.EndCall(b);
    }
    if (k == ex::MIN || k == ex::MAX || k == ex::SUM) {
      std::vector<NumericExpr> args; for (auto& c : s.a) args.push_back(num(c));
      auto b = f.BeginIterated(k, (int)args.size());
      for (auto& e : args) b.AddArg(e);
      return f.EndIterated(b);
    }
    if (k == ex::NUMBEROF) {
      std::vector<NumericExpr> args; for (auto& c : s.a) args.push_back(num(c));
      auto b = f.BeginNumberOf((int)args.size(), args[0]);
      for (size_t i = 1; i < args.size(); ++i) b.AddArg(args[i]);
      return f.EndNumberOf(b);
    }
    if (k == ex::NUMBEROF_SYM) {
      std::vector<Expr> args; for (auto& c : s.a) args.push_back(any(c));
      auto b = f.BeginSymbolicNumberOf((int)args.size(), args[0]);
      for (size_t i = 1; i < args.size(); ++i) b.AddArg(args[i]);
      return f.EndSymbolicNumberOf(b);
    }
    if (k == ex::COUNT) return count(s);
    fprintf(stderr, "harness: bad numeric kind %d\n", s.kind); abort();
  }
  CountExpr count(const Sh& s) {
    std::vector<LogicalExpr> args; for (auto& c : s.a) args.push_back(logical(c));
    auto b = f.BeginCount((int)args.size());
    for (auto& e : args) b.AddArg(e);
    return f.EndCount(b);
  }
  LogicalExpr logical(const Sh& s) {
    ex::Kind k = (ex::Kind)s.kind;
    if (k == ex::BOOL) return f.MakeLogicalConstant(s.bval);
    if (k == ex::NOT) return f.MakeNot(logical(s.a[0]));
    if (k >= ex::FIRST_BINARY_LOGICAL && k <= ex::LAST_BINARY_LOGICAL) return f.MakeBinaryLogical(k, logical(s.a[0]), logical(s.a[1]));
    if (k >= ex::FIRST_RELATIONAL && k <= ex::LAST_RELATIONAL) return f.MakeRelational(k, num(s.a[0]), num(s.a[1]));
    if (k >= ex::FIRST_LOGICAL_COUNT && k <= ex::LAST_LOGICAL_COUNT) return f.MakeLogicalCount(k, num(s.a[0]), count(s.a[1]));
    if (k == ex::IMPLICATION) return f.MakeImplication(logical(s.a[0]), logical(s.a[1]), logical(s.a[2]));
    if (k >= ex::FIRST_ITERATED_LOGICAL && k <= ex::LAST_ITERATED_LOGICAL) {
      std::vector<LogicalExpr> args; for (auto& c : s.a) args.push_back(logical(c));
      auto b = f.BeginIteratedLogical(k, (int)args.size());
      for (auto& e : args) b.AddArg(e);
      return f.EndIteratedLogical(b);
    }
    if (k >= ex::FIRST_PAIRWISE && k <= ex::LAST_PAIRWISE) {
      std::vector<NumericExpr> args; for (auto& c : s.a) args.push_back(num(c));
      auto b = f.BeginPairwise(k, (int)args.size());
      for (auto& e : args) b.AddArg(e);
      return f.EndPairwise(b);
    }
    fprintf(stderr, "harness: bad logical kind %d\n", s.kind); abort();
  }
};

// collect pointers to all nodes
static void nodes(Sh& s, std::vector<Sh*>& v) { v.push_back(&s); for (auto& c : s.a) nodes(c, v); }

static bool is_numeric_kind(int k) { return k >= ex::FIRST_NUMERIC && k <= ex::LAST_NUMERIC; }
static bool is_logical_kind(int k) { return k >= ex::FIRST_LOGICAL && k <= ex::LAST_LOGICAL; }

// one single-point mutation; returns its name ("" = none applicable here)
static std::string mutate(Sh& root, Gen& g) {
  std::vector<Sh*> v; nodes(root, v);
  vf::Rng& r = g.r;
  for (int attempt = 0; attempt < 40; ++attempt) {
    Sh& n = *v[r.below(v.size())];
    int k = n.kind;
    bool is_root = &n == &root;
    if (k == ex::NUMBER) {
      double o = n.num, d;
      do d = r.chance(1, 2) ? g.constant() : (std::isfinite(o) ? std::nextafter(o, r.chance(1, 2) ? 1e308 : -1e308) : 1.0);
      while (same_double(o, d) || (std::isnan(o) && std::isnan(d)));
      n.num = d; return "constant";
    }
    if (k == ex::BOOL) { n.bval = !n.bval; return "bool"; }
    if (k == ex::VARIABLE || k == ex::COMMON_EXPR) {
      if (r.chance(1, 3) && !is_root) { /* fallthrough to kind flip only if parent accepts any reference: PL arg ok */ n.kind = k == ex::VARIABLE ? ex::COMMON_EXPR : ex::VARIABLE; return "refkind"; }
      if (r.chance(1, 3)) { n.kind = k == ex::VARIABLE ? ex::COMMON_EXPR : ex::VARIABLE; return "refkind"; }
      n.idx += r.chance(1, 2) ? 1 : 7; return "index";
    }
    if (k == ex::STRING) {
      std::string o = n.s;
      int m = (int)r.below(3);
      if (m == 0 || o.empty()) n.s += (char)r.range(1, 255);
      else if (m == 1) n.s.pop_back();
      else { size_t i = r.below(o.size()); n.s[i] = (char)(((unsigned char)n.s[i] % 255) + 1); }
      // embedded NULs are impossible (range starts at 1)
      if (n.s != o) return "string";
      continue;
    }
    auto flip = [&](int lo, int hi, const char* name) -> std::string {
      if (lo == hi) return "";
      int nk; do nk = r.range(lo, hi); while (nk == k);
      n.kind = nk; return name;
    };
    if (k >= ex::FIRST_UNARY && k <= ex::LAST_UNARY) return flip(ex::FIRST_UNARY, ex::LAST_UNARY, "operator");
    if (k >= ex::FIRST_BINARY && k <= ex::LAST_BINARY) {
      if (r.chance(1, 2) && !sh_equal(n.a[0], n.a[1])) { std::swap(n.a[0], n.a[1]); return "argorder"; }
      return flip(ex::FIRST_BINARY, ex::LAST_BINARY, "operator");
    }
    if (k >= ex::FIRST_RELATIONAL && k <= ex::LAST_RELATIONAL) {
      if (r.chance(1, 2) && !sh_equal(n.a[0], n.a[1])) { std::swap(n.a[0], n.a[1]); return "argorder"; }
      return flip(ex::FIRST_RELATIONAL, ex::LAST_RELATIONAL, "operator");
    }
    if (k >= ex::FIRST_BINARY_LOGICAL && k <= ex::LAST_BINARY_LOGICAL) {
      if (r.chance(1, 2) && !sh_equal(n.a[0], n.a[1])) { std::swap(n.a[0], n.a[1]); return "argorder"; }
      return flip(ex::FIRST_BINARY_LOGICAL, ex::LAST_BINARY_LOGICAL, "operator");
    }
    if (k >= ex::FIRST_LOGICAL_COUNT && k <= ex::LAST_LOGICAL_COUNT) return flip(ex::FIRST_LOGICAL_COUNT, ex::LAST_LOGICAL_COUNT, "operator");
    if (k == ex::IF || k == ex::IMPLICATION || k == ex::IFSYM) {
      if (!sh_equal(n.a[1], n.a[2])) { std::swap(n.a[1], n.a[2]); return "argorder"; }
      continue;
    }
    if (k == ex::PLTERM) {
      int m = (int)r.below(3);
      if (m == 0) { size_t i = r.below(n.slopes.size()); double o = n.slopes[i]; n.slopes[i] = std::isfinite(o) ? o + 0.5 : 1.0; return "plslope"; }
      if (m == 1) { size_t i = r.below(n.bps.size()); n.bps[i] += 0.25; return "plbreakpoint"; }
      // arity: add a breakpoint at the end
      n.bps.push_back(n.bps.back() + 1); n.slopes.push_back(n.slopes.back()); return "plarity";
    }
    if (k == ex::CALL) {
      int m = (int)r.below(3);
      if (m == 0) { int nf; do nf = r.range(0, g.nfun - 1); while (nf == n.fn); n.fn = nf; return "function"; }
      if (m == 1) { n.a.push_back(g.sym(1)); return "arity"; }
      if (n.a.size() >= 2) { size_t i = r.below(n.a.size() - 1); if (!sh_equal(n.a[i], n.a[i + 1])) { std::swap(n.a[i], n.a[i + 1]); return "argorder"; } }
      continue;
    }
    // iterated forms
    bool numargs = (k == ex::MIN || k == ex::MAX || k == ex::SUM || k == ex::NUMBEROF || (k >= ex::FIRST_PAIRWISE && k <= ex::LAST_PAIRWISE));
    bool logargs = (k == ex::COUNT || (k >= ex::FIRST_ITERATED_LOGICAL && k <= ex::LAST_ITERATED_LOGICAL));
    if (numargs || logargs || k == ex::NUMBEROF_SYM) {
      int m = (int)r.below(4);
      if (m == 0) { n.a.push_back(numargs ? g.num(1) : logargs ? g.logical(1) : g.sym(1)); return "arity"; }
      if (m == 1 && n.a.size() >= 2) { n.a.pop_back(); return "arity"; }
      if (m == 2 && n.a.size() >= 2) { size_t i = r.below(n.a.size() - 1); if (!sh_equal(n.a[i], n.a[i + 1])) { std::swap(n.a[i], n.a[i + 1]); return "argorder"; } }
      if (m == 3) {
        if (k == ex::MIN || k == ex::MAX) { n.kind = k == ex::MIN ? ex::MAX : ex::MIN; return "operator"; }
        if (k >= ex::FIRST_PAIRWISE && k <= ex::LAST_PAIRWISE) { n.kind = k == ex::ALLDIFF ? ex::NOT_ALLDIFF : ex::ALLDIFF; return "operator"; }
        if (k >= ex::FIRST_ITERATED_LOGICAL && k <= ex::LAST_ITERATED_LOGICAL) { n.kind = k == ex::EXISTS ? ex::FORALL : ex::EXISTS; return "operator"; }
        if ((k == ex::SUM || k == ex::NUMBEROF) && !n.a.empty() && !(is_root && false)) {
          // SUM <-> NUMBEROF share the representation; only at positions accepting any numeric expr
          n.kind = k == ex::SUM ? ex::NUMBEROF : ex::SUM; return "operator";
        }
      }
      continue;
    }
    if (k == ex::NOT) continue;
  }
  return "";
}

struct Out { std::map<std::string, std::pair<long, std::string>> bad; long refused = 0; std::set<int> refused_kinds; long pairs = 0, eq_true = 0, eq_false = 0; };

static std::string kname(int k) { return mp::expr::str((ex::Kind)k); }

static std::string describe(const Sh& s, int depth = 0) {
  std::string o = kname(s.kind);
  if (s.kind == ex::NUMBER) o += "(" + vf::jnum(s.num) + ")";
  if (s.kind == ex::VARIABLE || s.kind == ex::COMMON_EXPR) o += "#" + std::to_string(s.idx);
  if (s.kind == ex::STRING) o += "'" + s.s + "'";
  if (s.kind == ex::CALL) o += "@f" + std::to_string(s.fn);
  if (s.kind == ex::BOOL) o += s.bval ? "(1)" : "(0)";
  if (s.kind == ex::PLTERM) { o += "<"; for (size_t i = 0; i < s.bps.size(); ++i) o += vf::jnum(s.slopes[i]) + "," + vf::jnum(s.bps[i]) + ","; o += vf::jnum(s.slopes.back()) + ">"; }
  if (!s.a.empty()) {
    o += "[";
    for (size_t i = 0; i < s.a.size(); ++i) { if (i) o += " "; o += depth > 6 ? "..." : describe(s.a[i], depth + 1); }
    o += "]";
  }
  return o;
}

// returns 1 true, 0 false, -1 refused (UnsupportedError)
static int eq(Expr a, Expr b, Out& o, int kind_hint) {
  try { return mp::Equal(a, b) ? 1 : 0; }
  catch (const mp::UnsupportedError&) { ++o.refused; o.refused_kinds.insert(kind_hint); return -1; }
}
static int hsh(Expr a, size_t& h, Out& o, int kind_hint) {
  try { h = std::hash<Expr>()(a); return 1; }
  catch (const mp::UnsupportedError&) { ++o.refused; o.refused_kinds.insert(kind_hint); return -1; }
}

int main(int argc, char** argv) {
  vf::Args A = vf::parse_args(argc, argv);
  bool with_nan = !A.has("--no-nan"), with_ifsym = !A.has("--no-ifsym");
  int per_case = atoi(A.get("--trees", "40").c_str());
  for (long c = A.from; c < A.to; ++c) {
    vf::begin_case(c);
    vf::Rng rng(A.seed, (uint64_t)c);
    Out o; std::set<int> kinds; std::set<std::string> muts; long nodes_total = 0, nontrivial_trees = 0;
    std::string sample;
    for (int t = 0; t < per_case; ++t) {
      Gen g{rng, with_nan, with_ifsym};
      int depth = rng.range(1, 5);
      Sh s = rng.chance(1, 2) ? g.num(depth) : g.logical(depth);
      size_t sz = sh_size(s);
      if (sz > 400) continue;
      nodes_total += (long)sz; if (sz >= 3) ++nontrivial_trees;
      sh_kinds(s, kinds);
      if (sample.empty() && sz >= 4 && sz < 30) sample = describe(s);
      Mat m;
      Expr a = m.any(s), a2 = m.any(s);
      auto bad = [&](const std::string& cls, const std::string& what) { auto& e = o.bad[cls]; if (!e.first++) e.second = what; };
      // reflexivity + copy equality + hash
      int r1 = eq(a, a, o, s.kind); ++o.pairs;
      if (r1 == 0) bad("not-reflexive", describe(s));
      int r2 = eq(a, a2, o, s.kind), r3 = eq(a2, a, o, s.kind); o.pairs += 2;
      if (r2 == 0 || r3 == 0) bad("independent-copy-not-equal", describe(s));
      if (r2 >= 0 && r3 >= 0 && r2 != r3) bad("asymmetric", describe(s));
      if (r2 == 1) ++o.eq_true;
      size_t h1 = 0, h2 = 0;
      if (hsh(a, h1, o, s.kind) == 1 && hsh(a2, h2, o, s.kind) == 1 && h1 != h2 && r2 == 1) bad("equal-but-hash-differs", describe(s));
      if (r2 != 0 && h1 != h2 && r2 == -1) { /* refused comparison: no claim */ }
      // mutants
      std::vector<std::pair<Sh, Expr>> ms;
      for (int k = 0; k < 4; ++k) {
        Sh mu = s; std::string name = mutate(mu, g);
        if (name.empty() || sh_equal(s, mu)) continue;
        muts.insert(name);
        Expr b = m.any(mu);
        int e1 = eq(a, b, o, s.kind), e2 = eq(b, a, o, s.kind); o.pairs += 2;
        if (e1 == 1 || e2 == 1) bad("mutant-compares-equal:" + name, describe(s) + "  VS  " + describe(mu));
        if (e1 >= 0 && e2 >= 0 && e1 != e2) bad("asymmetric", describe(s) + "  VS  " + describe(mu));
        if (e1 == 0) ++o.eq_false;
        ms.push_back({mu, b});
      }
      // transitivity over (a, a2, copies of mutants, mutants among themselves)
      for (size_t i = 0; i < ms.size(); ++i) {
        Expr bi2 = m.any(ms[i].first);
        int x = eq(ms[i].second, bi2, o, s.kind); ++o.pairs;
        if (x == 0) bad("independent-copy-not-equal", describe(ms[i].first));
        for (size_t j = i + 1; j < ms.size(); ++j) {
          bool want = sh_equal(ms[i].first, ms[j].first);
          int y = eq(ms[i].second, ms[j].second, o, s.kind); ++o.pairs;
          if (y >= 0 && (y == 1) != want) bad(want ? "independent-copy-not-equal" : "mutant-compares-equal:pair", describe(ms[i].first) + "  VS  " + describe(ms[j].first));
          // transitivity: a~a2 and a2~bi  => a~bi (all combos reduce to the oracle, asserted explicitly)
          int z = eq(bi2, ms[j].second, o, s.kind); ++o.pairs;
          if (x == 1 && y >= 0 && z >= 0 && y != z) bad("not-transitive", describe(ms[i].first) + "  VS  " + describe(ms[j].first));
          if (y == 1) { size_t ha, hb; if (hsh(ms[i].second, ha, o, s.kind) == 1 && hsh(ms[j].second, hb, o, s.kind) == 1 && ha != hb) bad("equal-but-hash-differs", describe(ms[i].first)); }
        }
      }
    }
    vf::J j; j.i("case", c).i("pairs", o.pairs).i("eq_true", o.eq_true).i("eq_false", o.eq_false).i("refused", o.refused).i("nodes", nodes_total).i("nontrivial", nontrivial_trees);
    std::string ks = "["; bool f = true; for (int k : kinds) { if (!f) ks += ","; f = false; ks += "\"" + kname(k) + "\""; } ks += "]";
    j.raw("kinds", ks);
    ks = "["; f = true; for (auto& k : muts) { if (!f) ks += ","; f = false; ks += "\"" + k + "\""; } ks += "]";
    j.raw("mutations", ks);
    ks = "["; f = true; for (int k : o.refused_kinds) { if (!f) ks += ","; f = false; ks += "\"" + kname(k) + "\""; } ks += "]";
    j.raw("refused_root_kinds", ks);
    j.s("sample", sample);
    std::string cl = "{"; f = true;
    for (auto& kv : o.bad) { if (!f) cl += ","; f = false; cl += "\"" + vf::jesc(kv.first) + "\":[" + std::to_string(kv.second.first) + ",\"" + vf::jesc(kv.second.second) + "\"]"; }
    j.raw("classes", cl + "}");
    vf::emit(j);
  }
  return 0;
}
