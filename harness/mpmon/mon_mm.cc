// Separate TU for ModelManagerWithPB<mp::Problem> (as the repo's drivers do, for compilation speed).
#include "mp/model-mgr-with-std-pb.hpp"
