// mpmon: a real solver driver (RunBackendApp + FlatBackend<MIPBackend<>> + MIPFlatConverter) whose "solver" is a
// script and whose ModelAPI records everything.  Serves C01 C04 C06 C07 C09 C10 C12 C19 C20.
#include <vector>
#include <climits>
#include <cfloat>
#include "mp/env.h"
#include "mp/backend-app.h"
#include "mp/backend-mip.h"
#include "mp/flat/backend_flat.h"
#include "mp/flat/model_api_base.h"
#include "mp/flat/redef/MIP/converter_mip.h"
#include "mp/flat/model_api_connect.h"
#include "monmodelapi.h"

namespace mp {

class MonBackend : public FlatBackend< MIPBackend<MonBackend> >, public mon::Common {
  using BaseBackend = FlatBackend< MIPBackend<MonBackend> >;
public:
  MonBackend() {
    mon::init_from_env();
    pre::BasicValuePresolver* pPre;
    auto data = CreateModelMgrWithFlatConverter<MonModelAPI, MIPFlatConverter>(*this, *this, pPre);
    SetMM(std::move(data));
    SetValuePresolver(pPre);
    copy_common_info_to_other();
  }
  static const char* GetAMPLSolverName() { return "mpmon"; }
  static const char* GetAMPLSolverLongName() { return "AMPL-MPMON"; }
  static const char* GetSolverName() { return "x-MPMON"; }
  std::string GetSolverVersion() { return "0.0.1"; }
  std::string set_external_libs() override { return ""; }
  static const char* GetBackendName() { return "MonBackend"; }
  static const char* GetBackendLongName() { return nullptr; }
  void InitCustomOptions() override { }
  void InitOptionParsing() override { }
  void FinishOptionParsing() override { }

  USING_STD_FEATURES;
  ALLOW_STD_FEATURE(WRITE_PROBLEM, true)
  void DoWriteProblem(const std::string&) override { }
  ALLOW_STD_FEATURE(WRITE_SOLUTION, true)
  void DoWriteSolution(const std::string&) override { }
  ALLOW_STD_FEATURE(MULTISOL, true)
  ALLOW_STD_FEATURE(MULTIOBJ, true)
  ALLOW_STD_FEATURE(BASIS, true)
  ALLOW_STD_FEATURE(WARMSTART, true)
  ALLOW_STD_FEATURE(MIPSTART, true)
  ALLOW_STD_FEATURE(VAR_PRIORITIES, true)
  ALLOW_STD_FEATURE(LAZY_USER_CUTS, true)
  ALLOW_STD_FEATURE(IIS, true)
  ALLOW_STD_FEATURE(RAYS, true)
  ALLOW_STD_FEATURE(RETURN_MIP_GAP, true)
  ALLOW_STD_FEATURE(RETURN_BEST_DUAL_BOUND, true)

  // ---------- script helpers
  const std::vector<std::string>* scr(const std::string& k) const { auto it = mon::S().script.find(k); return it == mon::S().script.end() ? nullptr : &it->second; }
  // "<key> formula a b" -> v[i] = a + b*i (size n) ; "<key> v1 v2 ..." explicit (any length)
  std::vector<double> dvec(const std::string& key, int n) const {
    std::vector<double> v; auto p = scr(key); if (!p) return v;
    if (!p->empty() && (*p)[0] == "formula") { double a = atof((*p)[1].c_str()), b = atof((*p)[2].c_str()); int m = p->size() > 3 ? atoi((*p)[3].c_str()) : n; for (int i = 0; i < m; ++i) v.push_back(a + b * i); }
    else for (auto& t : *p) v.push_back(t == "inf" ? INFINITY : t == "-inf" ? -INFINITY : t == "nan" ? NAN : strtod(t.c_str(), nullptr));
    return v;
  }
  std::vector<int> ivec(const std::string& key, int n) const {
    std::vector<int> v; auto p = scr(key); if (!p) return v;
    if (!p->empty() && (*p)[0] == "cycle") { int a = atoi((*p)[1].c_str()), m = atoi((*p)[2].c_str()); int len = p->size() > 3 ? atoi((*p)[3].c_str()) : n; for (int i = 0; i < len; ++i) v.push_back(a + (i % m)); }
    else for (auto& t : *p) v.push_back(atoi(t.c_str()));
    return v;
  }
  int ncons(int g) const { auto it = mon::S().ncons_by_group.find(g); return it == mon::S().ncons_by_group.end() ? 0 : it->second; }
  static const std::vector<int>& groups() { static const std::vector<int> g = {CG_Linear, CG_Quadratic, CG_Conic, CG_General, CG_SOS}; return g; }
  template <class Map> static std::string ser_map(const Map& m, bool dbl) {
    std::string s = "{"; bool f = true;
    for (const auto& kv : m.GetMap()) { std::vector<double> c(kv.second.begin(), kv.second.end()); s += std::string(f ? "" : ",") + "\"" + std::to_string(kv.first) + "\":" + (dbl ? mon::jdv(c) : mon::jiv(std::vector<long long>(c.begin(), c.end()))); f = false; }
    return s + "}";
  }

  // ---------- solver side
  bool IsMIP() const override { auto p = scr("ismip"); return p ? atoi((*p)[0].c_str()) != 0 : true; }
  bool IsQCP() const override { return false; }
  void SetInterrupter(mp::Interrupter* inter) override { inter->SetHandler([](void*) { return true; }, nullptr); }
  void Solve() override { mon::S().emit("{\"ev\":\"solve\",\"nvars\":" + std::to_string(mon::S().nvars) + "}"); }
  ArrayRef<double> GetObjectiveValues() override { return dvec("objvals", mon::S().nobjs); }
  ArrayRef<double> PrimalSolution() override { return dvec("x", mon::S().nvars); }
  pre::ValueMapDbl DualSolution() override {
    bool any = false;
    std::map<int, std::vector<double>> mm;
    for (int g : groups()) if (scr("dual" + std::to_string(g))) { mm[g] = dvec("dual" + std::to_string(g), ncons(g)); any = true; }
    if (!any) return {};
    return pre::ValueMapDbl(mm);
  }
  void ReportResults() override {
    auto p = scr("status"); int code = p ? atoi((*p)[0].c_str()) : 0; std::string msg = "scripted status";
    if (p && p->size() > 1) { msg.clear(); for (size_t i = 1; i < p->size(); ++i) msg += (i > 1 ? " " : "") + (*p)[i]; }
    SetStatus({code, msg});
    // expose the classification predicates (C10)
    mon::S().emit(std::string("{\"ev\":\"status\",\"code\":") + std::to_string(SolveCode()) +
                  ",\"IsProblemSolved\":" + (IsProblemSolved() ? "true" : "false") + ",\"IsProblemSolvedOrFeasible\":" + (IsProblemSolvedOrFeasible() ? "true" : "false") +
                  ",\"IsProblemInfeasible\":" + (IsProblemInfeasible() ? "true" : "false") + ",\"IsProblemUnbounded\":" + (IsProblemUnbounded() ? "true" : "false") +
                  ",\"IsProblemInfOrUnb\":" + (IsProblemInfOrUnb() ? "true" : "false") + ",\"IsProblemIndiffInfOrUnb\":" + (IsProblemIndiffInfOrUnb() ? "true" : "false") + "}");
    // C07: a history of candidate points through the real postsolve + solution check path
    if (auto h = scr("checkpoints")) {
      int n = atoi((*h)[0].c_str());
      for (int k = 0; k < n; ++k) {
        auto x = dvec("pt" + std::to_string(k), mon::S().nvars);
        ClearWarning(GetSolCheckWarningKey(false)); ClearWarning(GetSolCheckWarningKey(true));
        std::string err;
        std::vector<double> ov = scr("objvals" + std::to_string(k)) ? dvec("objvals" + std::to_string(k), 0) : dvec("objvals", mon::S().nobjs);
        try { GetValuePresolver().PostsolveSolution({ x, pre::ValueMapDbl{}, ov, (void*)0 }); }
        catch (const std::exception& e) { err = e.what(); }
        const auto& w0 = GetWarning(GetSolCheckWarningKey(false)); const auto& w1 = GetWarning(GetSolCheckWarningKey(true));
        std::string ab = GetWarning("Solution check aborted").second; ClearWarning("Solution check aborted");
        mon::S().emit("{\"ev\":\"solcheck\",\"k\":" + std::to_string(k) + ",\"aborted\":\"" + mon::jesc(ab) + "\",\"n0\":" + std::to_string(w0.first) + ",\"w0\":\"" + mon::jesc(w0.second) + "\",\"n1\":" + std::to_string(w1.first) + ",\"w1\":\"" + mon::jesc(w1.second) + "\",\"err\":\"" + mon::jesc(err) + "\"}");
      }
      ClearWarning(GetSolCheckWarningKey(false)); ClearWarning(GetSolCheckWarningKey(true));
    }
    // C04: a scripted history of further pre/postsolve calls
    if (auto h = scr("history")) for (auto& op : *h) run_history_op(op);
    BaseBackend::ReportResults();
  }
  void run_history_op(const std::string& op) {
    auto& vp = GetValuePresolver();
    if (op == "postsol") { auto mv = vp.PostsolveSolution({ dvec("x", mon::S().nvars), DualSolution(), GetObjectiveValues(), (void*)0 });
      mon::S().emit("{\"ev\":\"hist\",\"op\":\"postsol\",\"var\":" + mon::jdv(mv.GetVarValues()()) + ",\"con\":" + mon::jdv(mv.GetConValues()()) + "}"); }
    else if (op == "postbasis") { auto b = GetBasis(); mon::S().emit("{\"ev\":\"hist\",\"op\":\"postbasis\",\"var\":" + mon::jiv(b.varstt) + ",\"con\":" + mon::jiv(b.constt) + "}"); }
    else if (op == "postiis") { auto b = GetIIS(); mon::S().emit("{\"ev\":\"hist\",\"op\":\"postiis\",\"var\":" + mon::jiv(b.variis) + ",\"con\":" + mon::jiv(b.coniis) + "}"); }
    else if (op == "presol") { auto mv = vp.PresolveSolution({ dvec("hx", 0), dvec("hy", 0) }); mon::S().emit("{\"ev\":\"hist\",\"op\":\"presol\",\"var\":" + mon::jdv(mv.GetVarValues()()) + ",\"con\":" + ser_map(mv.GetConValues(), true) + "}"); }
    else if (op == "prebasis") { auto mv = vp.PresolveBasis({ ivec("hbv", 0), ivec("hbc", 0) }); mon::S().emit("{\"ev\":\"hist\",\"op\":\"prebasis\",\"var\":" + mon::jiv(mv.GetVarValues()()) + ",\"con\":" + ser_map(mv.GetConValues(), false) + "}"); }
    else if (op == "preint") { auto mv = vp.PresolveGenericInt({ ivec("hiv", 0), ivec("hic", 0) }); mon::S().emit("{\"ev\":\"hist\",\"op\":\"preint\",\"var\":" + mon::jiv(mv.GetVarValues()()) + ",\"con\":" + ser_map(mv.GetConValues(), false) + "}"); }
    else if (op == "prelazy") { auto mv = vp.PresolveLazyUserCutFlags({ {}, ivec("hic", 0) }); mon::S().emit("{\"ev\":\"hist\",\"op\":\"prelazy\",\"con\":" + ser_map(mv.GetConValues(), false) + "}"); }
  }

  // ---------- values pushed into the solver: presolved exactly as real backends do, and logged
  SolutionBasis GetBasis() override {
    std::vector<int> varstt = ivec("basis_var", mon::S().nvars);
    std::map<int, std::vector<int>> mm; for (int g : groups()) if (scr("basis_con" + std::to_string(g))) mm[g] = ivec("basis_con" + std::to_string(g), ncons(g));
    if (varstt.empty() && mm.empty()) return {};
    auto mv = GetValuePresolver().PostsolveBasis({ std::move(varstt), pre::ValueMapInt(mm) });
    return { mv.GetVarValues()(), mv.GetConValues()() };
  }
  void SetBasis(SolutionBasis basis) override {
    auto mv = GetValuePresolver().PresolveBasis({ basis.varstt, basis.constt });
    mon::S().emit("{\"ev\":\"SetBasis\",\"in_var\":" + mon::jiv(basis.varstt) + ",\"in_con\":" + mon::jiv(basis.constt) + ",\"var\":" + mon::jiv(mv.GetVarValues()()) + ",\"con\":" + ser_map(mv.GetConValues(), false) + "}");
  }
  void AddPrimalDualStart(Solution sol0) override {
    auto mv = GetValuePresolver().PresolveSolution({ sol0.primal, sol0.dual });
    mon::S().emit("{\"ev\":\"AddPrimalDualStart\",\"in_var\":" + mon::jdv(sol0.primal) + ",\"in_con\":" + mon::jdv(sol0.dual) + ",\"var\":" + mon::jdv(mv.GetVarValues()()) + ",\"con\":" + ser_map(mv.GetConValues(), true) + "}");
  }
  void AddMIPStart(ArrayRef<double> x0, ArrayRef<int> s0) override {
    auto mv = GetValuePresolver().PresolveSolution({ x0 }); auto ms = GetValuePresolver().PresolveGenericInt({ s0 });
    mon::S().emit("{\"ev\":\"AddMIPStart\",\"in_var\":" + mon::jdv(x0) + ",\"in_spars\":" + mon::jiv(s0) + ",\"var\":" + mon::jdv(mv.GetVarValues()()) + ",\"spars\":" + mon::jiv(ms.GetVarValues()()) + "}");
  }
  void VarPriorities(ArrayRef<int> pri) override {
    auto mv = GetValuePresolver().PresolveGenericInt({ pri });
    mon::S().emit("{\"ev\":\"VarPriorities\",\"in_var\":" + mon::jiv(pri) + ",\"var\":" + mon::jiv(mv.GetVarValues()()) + "}");
  }
  void MarkLazyOrUserCuts(ArrayRef<int> lazy) override {
    auto mv = GetValuePresolver().PresolveLazyUserCutFlags({ {}, lazy });
    mon::S().emit("{\"ev\":\"MarkLazyOrUserCuts\",\"in_con\":" + mon::jiv(lazy) + ",\"con\":" + ser_map(mv.GetConValues(), false) + "}");
  }
  void ComputeIIS() override { }
  IIS GetIIS() override {
    std::vector<int> variis = ivec("iis_var", mon::S().nvars);
    std::map<int, std::vector<int>> mm; for (int g : groups()) if (scr("iis_con" + std::to_string(g))) mm[g] = ivec("iis_con" + std::to_string(g), ncons(g));
    if (variis.empty() && mm.empty()) return {};
    auto mv = GetValuePresolver().PostsolveIIS({ variis, pre::ValueMapInt(mm) });
    return { mv.GetVarValues()(), mv.GetConValues()() };
  }
  ArrayRef<double> Ray() override { auto mv = GetValuePresolver().PostsolveSolution({ dvec("ray", mon::S().nvars) }); std::vector<double> v = mv.GetVarValues()(); return ArrayRef<double>(std::move(v)); }   // owning
  ArrayRef<double> DRay() override { return {}; }
  double MIPGap() override { auto v = dvec("mipgap", 1); return v.empty() ? 0 : v[0]; }
  double MIPGapAbs() override { auto v = dvec("mipgapabs", 1); return v.empty() ? 0 : v[0]; }
  double BestDualBound() override { auto v = dvec("bestbound", 1); return v.empty() ? 0 : v[0]; }
};

}  // namespace mp

std::unique_ptr<mp::BasicBackend> CreateMonBackend() { return std::unique_ptr<mp::BasicBackend>{new mp::MonBackend()}; }

extern "C" int main(int, char** argv) { return mp::RunBackendApp(argv, CreateMonBackend); }
