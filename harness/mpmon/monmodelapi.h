// MonModelAPI: accepts every constraint type the converter can store, with run-time acceptance levels,
// and records every call it receives.
#ifndef MPMON_MODELAPI_H_
#define MPMON_MODELAPI_H_
#include "mp/env.h"
#include "mon.h"

#define MON_CON_TYPES(X) \
  X(LinConRange, CG_Linear) X(LinConLE, CG_Linear) X(LinConEQ, CG_Linear) X(LinConGE, CG_Linear) \
  X(QuadConRange, CG_Quadratic) X(QuadConLE, CG_Quadratic) X(QuadConEQ, CG_Quadratic) X(QuadConGE, CG_Quadratic) \
  X(LinearFunctionalConstraint, CG_General) X(QuadraticFunctionalConstraint, CG_General) \
  X(MaxConstraint, CG_General) X(MinConstraint, CG_General) X(AbsConstraint, CG_General) X(AndConstraint, CG_General) X(OrConstraint, CG_General) \
  X(CondLinConEQ, CG_General) X(CondLinConLE, CG_General) X(CondLinConLT, CG_General) X(CondLinConGE, CG_General) X(CondLinConGT, CG_General) \
  X(CondQuadConEQ, CG_General) X(CondQuadConLE, CG_General) X(CondQuadConLT, CG_General) X(CondQuadConGE, CG_General) X(CondQuadConGT, CG_General) \
  X(NotConstraint, CG_General) X(DivConstraint, CG_General) X(IfThenConstraint, CG_General) X(ImplicationConstraint, CG_General) X(AllDiffConstraint, CG_General) \
  X(NumberofConstConstraint, CG_General) X(NumberofVarConstraint, CG_General) X(CountConstraint, CG_General) \
  X(ExpConstraint, CG_General) X(ExpAConstraint, CG_General) X(LogConstraint, CG_General) X(LogAConstraint, CG_General) X(PowConstraint, CG_General) \
  X(SinConstraint, CG_General) X(CosConstraint, CG_General) X(TanConstraint, CG_General) X(AsinConstraint, CG_General) X(AcosConstraint, CG_General) X(AtanConstraint, CG_General) \
  X(SinhConstraint, CG_General) X(CoshConstraint, CG_General) X(TanhConstraint, CG_General) X(AsinhConstraint, CG_General) X(AcoshConstraint, CG_General) X(AtanhConstraint, CG_General) \
  X(IndicatorConstraintLinLE, CG_General) X(IndicatorConstraintLinEQ, CG_General) X(IndicatorConstraintLinGE, CG_General) \
  X(IndicatorConstraintQuadLE, CG_General) X(IndicatorConstraintQuadEQ, CG_General) X(IndicatorConstraintQuadGE, CG_General) \
  X(PLConstraint, CG_General) X(SOS1Constraint, CG_SOS) X(SOS2Constraint, CG_SOS) \
  X(ComplementarityLinear, CG_General) X(ComplementarityQuadratic, CG_General) \
  X(QuadraticConeConstraint, CG_Conic) X(RotatedQuadraticConeConstraint, CG_Conic) X(PowerConeConstraint, CG_Conic) X(ExponentialConeConstraint, CG_Conic) X(GeometricConeConstraint, CG_Conic)

namespace mp {

class MonModelAPI : public mon::Common, public EnvKeeper, public BasicFlatModelAPI {
  using BaseModelAPI = BasicFlatModelAPI;
public:
  MonModelAPI(Env& e) : EnvKeeper(e) { }
  static const char* GetTypeName() { return "MonModelAPI"; }
  void InitCustomOptions() { }

  void InitProblemModificationPhase(const FlatModelInfo* fmi) {
    std::string s = "{\"ev\":\"init\"";
    if (fmi) {
      s += ",\"fmi\":{";
      bool first = true;
#define X(T, G) { s += std::string(first ? "" : ",") + "\"" #T "\":" + std::to_string(fmi->GetNumberOfConstraints(typeid(T))); first = false; }
      MON_CON_TYPES(X)
#undef X
      s += "}";
    }
    mon::S().emit(s + "}");
  }
  void FinishProblemModificationPhase() { mon::S().emit("{\"ev\":\"finish\"}"); }

  void AddVariables(const VarArrayDef& v) {
    std::string s = "{\"ev\":\"vars\",\"lb\":[";
    for (int i = 0; i < v.size(); ++i) s += (i ? "," : "") + mon::jd(v.plb()[i]);
    s += "],\"ub\":["; for (int i = 0; i < v.size(); ++i) s += (i ? "," : "") + mon::jd(v.pub()[i]);
    s += "],\"type\":["; for (int i = 0; i < v.size(); ++i) s += (i ? "," : "") + std::to_string((int)v.ptype()[i]);
    s += "],\"names\":";
    if (v.pnames()) { s += "["; for (int i = 0; i < v.size(); ++i) s += std::string(i ? "," : "") + (v.pnames()[i] ? "\"" + mon::jesc(v.pnames()[i]) + "\"" : "null"); s += "]"; } else s += "null";
    mon::S().nvars += v.size();
    mon::S().emit(s + "}");
  }
  void SetLinearObjective(int iobj, const LinearObjective& lo) {
    mon::S().nobjs = std::max(mon::S().nobjs, iobj + 1);
    mon::S().emit("{\"ev\":\"obj\",\"i\":" + std::to_string(iobj) + ",\"sense\":" + std::to_string((int)lo.obj_sense()) + ",\"name\":\"" + mon::jesc(lo.name()) + "\",\"lin\":" + mon::ser(lo.GetLinTerms()) + ",\"quad\":null}");
  }
  static int AcceptsQuadObj() { return (int)mon::S().flag("quadobj", 1); }
  void SetQuadraticObjective(int iobj, const QuadraticObjective& qo) {
    mon::S().nobjs = std::max(mon::S().nobjs, iobj + 1);
    mon::S().emit("{\"ev\":\"obj\",\"i\":" + std::to_string(iobj) + ",\"sense\":" + std::to_string((int)qo.obj_sense()) + ",\"name\":\"" + mon::jesc(qo.name()) + "\",\"lin\":" + mon::ser(qo.GetLinTerms()) + ",\"quad\":" + mon::ser(qo.GetQPTerms()) + "}");
  }
  static bool AcceptsNonconvexQC() { return mon::S().flag("nonconvexqc", 1) != 0; }
  static bool CanMixConicQCAndQC() { return mon::S().flag("mixconic", 1) != 0; }
  static bool CanSOCPCornerCasesFromQC() { return mon::S().flag("socpcorner", 0) != 0; }

  USE_BASE_CONSTRAINT_HANDLERS(BaseModelAPI)

#define X(T, G) \
  ACCEPT_CONSTRAINT(T, mon::S().level(#T), G) \
  void AddConstraint(const T& c) { \
    int k = mon::S().ncons_by_group[G]++; \
    mon::S().emit("{\"ev\":\"con\",\"type\":\"" #T "\",\"group\":" + std::to_string((int)G) + ",\"gidx\":" + std::to_string(k) + ",\"name\":\"" + mon::jesc(c.name()) + "\",\"data\":" + mon::data(c) + "}"); \
  }
  MON_CON_TYPES(X)
#undef X
};

}  // namespace mp
#endif
