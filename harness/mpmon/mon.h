// mpmon: shared state, configuration and lossless JSON serialisation of everything the
// converter hands to the ModelAPI.  Not part of ampl/mp.
#ifndef MPMON_MON_H_
#define MPMON_MON_H_
#include <cstdio>
#include <cstdlib>
#include <cstring>
#include <cmath>
#include <string>
#include <vector>
#include <map>
#include <array>
#include <sstream>
#include "mp/backend-to-model-api.h"
#include "mp/flat/constr_std.h"
#include "mp/flat/obj_std.h"
#include "mp/flat/model_api_base.h"

namespace mon {

inline std::string jesc(const std::string& s) {
  std::string o;
  for (unsigned char c : s) {
    if (c == '"') o += "\\\""; else if (c == '\\') o += "\\\\"; else if (c == '\n') o += "\\n"; else if (c == '\r') o += "\\r"; else if (c == '\t') o += "\\t";
    else if (c < 0x20) { char b[8]; snprintf(b, sizeof b, "\\u%04x", c); o += b; } else o += (char)c;   // bytes >= 0x80 pass through (UTF-8)
  }
  return o;
}
inline std::string jd(double d) {
  if (std::isnan(d)) return "\"nan\""; if (std::isinf(d)) return d > 0 ? "\"inf\"" : "\"-inf\"";
  char b[40]; snprintf(b, sizeof b, "%.17g", d); return b;
}
template <class V> inline std::string jdv(const V& v) { std::string o = "["; bool f = true; for (double d : v) { if (!f) o += ","; f = false; o += jd(d); } return o + "]"; }
template <class V> inline std::string jiv(const V& v) { std::string o = "["; bool f = true; for (long long d : v) { if (!f) o += ","; f = false; o += std::to_string(d); } return o + "]"; }

// ---- the state shared by MonModelAPI and MonBackend -----------------------------------------------------
struct State {
  FILE* trace = nullptr;
  int nvars = 0, nobjs = 0;
  std::map<int, int> ncons_by_group;          // delivered constraints per ConstraintGroup
  std::map<std::string, int> acc;             // constraint type name -> acceptance level; "*" default
  std::map<std::string, double> flags;        // quadobj, nonconvexqc, mixconic, socpcorner
  std::map<std::string, std::vector<std::string>> script;   // scripted solver answers: key -> tokens
  void emit(const std::string& line) { if (trace) { fputs(line.c_str(), trace); fputc('\n', trace); fflush(trace); } }
  int level(const char* type) const { auto it = acc.find(type); if (it != acc.end()) return it->second; it = acc.find("*"); return it == acc.end() ? 2 : it->second; }
  double flag(const char* k, double def) const { auto it = flags.find(k); return it == flags.end() ? def : it->second; }
};
inline State& S() { static State s; return s; }

inline void init_from_env() {
  State& s = S();
  if (const char* p = getenv("MON_TRACE")) s.trace = fopen(p, "w");
  auto kv = [](const char* env, auto put) { if (const char* p = getenv(env)) { std::stringstream ss(p); std::string it; while (std::getline(ss, it, ',')) { auto e = it.find('='); if (e != std::string::npos) put(it.substr(0, e), it.substr(e + 1)); } } };
  kv("MON_ACC", [&](const std::string& k, const std::string& v) { s.acc[k] = atoi(v.c_str()); });
  kv("MON_FLAGS", [&](const std::string& k, const std::string& v) { s.flags[k] = atof(v.c_str()); });
  if (const char* p = getenv("MON_SCRIPT")) { FILE* f = fopen(p, "r"); if (f) { char* line = nullptr; size_t cap = 0; while (getline(&line, &cap, f) > 0) { std::stringstream ss(line); std::string k, t; if (!(ss >> k)) continue; auto& v = s.script[k]; v.clear(); while (ss >> t) v.push_back(t); } free(line); fclose(f); } }
}

struct CommonInfo { };
class Common : public mp::Backend2ModelAPIConnector<CommonInfo> {
public:
  static constexpr double Infinity() { return INFINITY; }
  static constexpr double MinusInfinity() { return -INFINITY; }
};

// ---- serialisers -------------------------------------------------------------------------------------
inline std::string ser(const mp::LinTerms& lt) { return "{\"c\":" + jdv(lt.coefs()) + ",\"v\":" + jiv(lt.vars()) + "}"; }
inline std::string ser(const mp::QuadTerms& qt) { return "{\"c\":" + jdv(qt.coefs()) + ",\"v1\":" + jiv(qt.vars1()) + ",\"v2\":" + jiv(qt.vars2()) + "}"; }
inline std::string ser(const mp::QuadAndLinTerms& b) { return "{\"lin\":" + ser(b.GetLinTerms()) + ",\"quad\":" + ser(b.GetQPTerms()) + "}"; }
inline std::string ser(const mp::AffineExpr& e) { return "{\"lin\":" + ser(e.GetLinTerms()) + ",\"const\":" + jd(e.constant_term()) + "}"; }
inline std::string ser(const mp::QuadraticExpr& e) { return "{\"lin\":" + ser(e.GetLinTerms()) + ",\"quad\":" + ser(e.GetQPTerms()) + ",\"const\":" + jd(e.constant_term()) + "}"; }
template <size_t N> inline std::string ser(const std::array<int, N>& a) { return jiv(a); }
inline std::string ser(const std::vector<int>& a) { return jiv(a); }
template <size_t N> inline std::string ser(const std::array<double, N>& a) { return jdv(a); }
template <size_t N> inline std::string ser(const std::array<int, N>& a, int) { return jiv(a); }
inline std::string ser(const std::vector<double>& a) { return jdv(a); }
inline std::string ser(const mp::PLConParams& p) { return "{\"x\":" + jdv(p.GetPLPoints().x_) + ",\"y\":" + jdv(p.GetPLPoints().y_) + "}"; }
template <class Body, class RR> inline std::string ser(const mp::AlgebraicConstraint<Body, RR>& c) {
  return "{\"body\":" + ser(c.GetBody()) + ",\"lb\":" + jd(c.lb()) + ",\"ub\":" + jd(c.ub()) + ",\"kind\":" + std::to_string(c.GetRhsOrRange().kind()) + "}";
}
// parameters of zero size arrays of int
inline std::string ser(const std::array<int, 0>&) { return "[]"; }

template <class Body, class RR> inline std::string data(const mp::AlgebraicConstraint<Body, RR>& c) { return ser(c); }
template <class Con> inline std::string data(const mp::ConditionalConstraint<Con>& c) {
  return "{\"res\":" + std::to_string(c.GetResultVar()) + ",\"ctx\":" + std::to_string((int)c.GetContext().GetValue()) + ",\"con\":" + ser(c.GetConstraint()) + "}";
}
template <class A, class P, class N, class I> inline std::string data(const mp::CustomFunctionalConstraint<A, P, N, I>& c) {
  return "{\"res\":" + std::to_string(c.GetResultVar()) + ",\"ctx\":" + std::to_string((int)c.GetContext().GetValue()) + ",\"args\":" + ser(c.GetArguments()) + ",\"params\":" + ser(c.GetParameters()) + "}";
}
inline std::string data(const mp::LinearFunctionalConstraint& c) {
  return "{\"res\":" + std::to_string(c.GetResultVar()) + ",\"ctx\":" + std::to_string((int)c.GetContext().GetValue()) + ",\"args\":" + ser(c.GetArguments()) + ",\"params\":[]}";
}
inline std::string data(const mp::QuadraticFunctionalConstraint& c) {
  return "{\"res\":" + std::to_string(c.GetResultVar()) + ",\"ctx\":" + std::to_string((int)c.GetContext().GetValue()) + ",\"args\":" + ser(c.GetArguments()) + ",\"params\":[]}";
}
template <class Con> inline std::string data(const mp::IndicatorConstraint<Con>& c) {
  return "{\"b\":" + std::to_string(c.get_binary_var()) + ",\"bv\":" + std::to_string(c.get_binary_value()) + ",\"con\":" + ser(c.get_constraint()) + "}";
}
template <int t> inline std::string data(const mp::SOS_1or2_Constraint<t>& c) {
  auto r = c.get_sum_of_vars_range();
  return "{\"type\":" + std::to_string(t) + ",\"vars\":" + jiv(c.get_vars()) + ",\"weights\":" + jdv(c.get_weights()) + ",\"sum_lb\":" + jd(r.lb_) + ",\"sum_ub\":" + jd(r.ub_) + "}";
}
template <class E> inline std::string data(const mp::ComplementarityConstraint<E>& c) {
  return "{\"expr\":" + ser(c.GetExpression()) + ",\"var\":" + std::to_string(c.GetVariable()) + "}";
}

}  // namespace mon
#endif
