/* Stand-in for ASL's funcadd.h (ASL is not part of this tree): declares only what src/gsl/amplgsl.cc uses.
   Both the bindings and the monitor (gsl_mon.cc) are compiled against this header, so the layout is
   consistent by construction.  Field meanings follow the ASL documentation of imported functions. */
#ifndef VERIF_SHIM_FUNCADD_H
#define VERIF_SHIM_FUNCADD_H
#include <stdarg.h>
#include <stddef.h>
#ifdef __cplusplus
extern "C" {
#endif
typedef double real;
typedef char Char;
typedef struct arglist arglist;
typedef struct AmplExports AmplExports;
typedef struct TMInfo TMInfo;
typedef real (*rfunc)(arglist *);
typedef void (*Exitfunc)(void *);
typedef void (*RandSeedSetter)(void *, unsigned long);

struct TMInfo { void *blocks; };

struct arglist {
  int n;              /* number of args */
  int nr;             /* number of real input args */
  int *at;            /* argument types */
  real *ra;           /* real args */
  const char **sa;    /* symbolic args */
  real *derivs;       /* partial derivatives wanted if nonzero */
  real *hes;          /* second partials wanted if nonzero (upper triangle, columnwise) */
  char *dig;          /* dig[i] != 0: partials w.r.t. ra[i] are not used */
  Char *funcinfo;
  AmplExports *AE;
  void *f, *tva;
  char *Errmsg;       /* error text; leading ' (") = first (second) derivatives unavailable */
  TMInfo *TMI;
  Char *Private;
  int nin, nout, nsin, nsout;
};

struct AmplExports {
  long ASLdate;
  void (*Addfunc)(const char *name, rfunc f, int type, int nargs, void *funcinfo, AmplExports *ae);
  void (*AtReset)(AmplExports *ae, Exitfunc f, void *v);
  void *(*Tempmem)(TMInfo *, size_t);
  int (*SnprintF)(char *, size_t, const char *, ...);
  int (*VsnprintF)(char *, size_t, const char *, va_list);
  void (*Addrandinit)(AmplExports *ae, RandSeedSetter, void *);
};

enum { FUNCADD_REAL_VALUED = 0, FUNCADD_STRING_ARGS = 1, FUNCADD_STRING_VALUED = 2, FUNCADD_RANDOM_VALUED = 4, FUNCADD_OUTPUT_ARGS = 16 };

#define addfunc(a, b, c, d, e) (*ae->Addfunc)(a, b, c, d, e, ae)
#define at_reset(a, b) (*ae->AtReset)(ae, a, b)
#define addrandinit(a, b) (*ae->Addrandinit)(ae, a, b)

void funcadd_ASL(AmplExports *ae);
#ifdef __cplusplus
}
#endif
#endif
