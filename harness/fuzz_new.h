// Replacement operator new for libFuzzer targets: a request above 256 MB (file-declared gigantic counts) throws std::bad_alloc, as it
// would on a machine without that memory, instead of ending the fuzzing process with an ASan allocation-limit abort.  malloc/free stay
// instrumented by ASan, so heap overflows and use-after-free are still detected.
#ifndef VF_FUZZ_NEW_H_
#define VF_FUZZ_NEW_H_
#include <cstdlib>
#include <new>
static void* vf_alloc(std::size_t n) { if (n > (std::size_t(256) << 20)) throw std::bad_alloc(); void* p = std::malloc(n ? n : 1); if (!p) throw std::bad_alloc(); return p; }
void* operator new(std::size_t n) { return vf_alloc(n); }
void* operator new[](std::size_t n) { return vf_alloc(n); }
void* operator new(std::size_t n, const std::nothrow_t&) noexcept { return n > (std::size_t(256) << 20) ? nullptr : std::malloc(n ? n : 1); }
void* operator new[](std::size_t n, const std::nothrow_t&) noexcept { return n > (std::size_t(256) << 20) ? nullptr : std::malloc(n ? n : 1); }
void operator delete(void* p) noexcept { std::free(p); }
void operator delete[](void* p) noexcept { std::free(p); }
void operator delete(void* p, std::size_t) noexcept { std::free(p); }
void operator delete[](void* p, std::size_t) noexcept { std::free(p); }
#endif
