// C11 monitor: BasicSolver option parsing (mp_options, <exe>_options / <solver>_options, argv) against a
// generator that knows what it assigned; hostile strings under ASan with heap-exact buffers.
#include "vfh.h"
#include "mp/solver-base.h"
#include "mp/solver-opt.h"
#include "mp/error.h"
#include <map>
#include <typeinfo>

struct ErrRec : mp::ErrorHandler { std::vector<std::string> msgs; void HandleError(fmt::CStringRef m) override { msgs.push_back(m.c_str()); } };
struct OutRec : mp::OutputHandler { std::string out; void HandleOutput(fmt::CStringRef m) override { out += m.c_str(); } };

struct TS : mp::BasicSolver {
  int i1 = 11, i2 = 22; double d1 = 1.5, d2 = 2.5; std::string s1 = "s1init", s2 = "s2init"; int flag = 0;
  std::map<std::string, double> wc; std::vector<std::string> wc_order;
  double GetWc(const mp::SolverOption& o) const { auto it = wc.find(o.wc_keybody_last()); return it == wc.end() ? 0 : it->second; }
  void SetWc(const mp::SolverOption& o, double v) { wc[o.wc_keybody_last()] = v; wc_order.push_back(o.wc_keybody_last()); }
  struct FlagOpt : mp::SolverOption {
    int& f; FlagOpt(int& ff) : mp::SolverOption("tech:flagopt flagopt", "a flag", mp::ValueArrayRef(), true), f(ff) {}
    void Write(fmt::Writer& w) override { w << f; }
    void Parse(const char*&, bool) override { ++f; }
    Option_Type type() override { return Option_Type::BOOL; }
  };
  TS() : mp::BasicSolver("tsolver", "Test Solver", 20240101, 0) {
    AddStoredOption("iopt1", "int option 1", i1);
    AddStoredOption("tech:i2 ialias2 ia2", "int option 2", i2);
    AddStoredOption("dopt1", "double option 1", d1);
    AddStoredOption("lim:d2 dalias", "double option 2", d2);
    AddStoredOption("sopt1", "string option 1", s1);
    AddStoredOption("str:s2 salias", "string option 2", s2);
    AddOptionSynonyms_OutOfLine("oolsyn", "iopt1");
    AddOptionSynonyms_OutOfLine("dool", "dopt1");
    AddDblOption("wc:*:val wc_*_val", "wildcard option", &TS::GetWc, &TS::SetWc);
    AddOption(OptionPtr(new FlagOpt(flag)));
  }
};

struct Expect { int i1 = 11, i2 = 22; double d1 = 1.5, d2 = 2.5; std::string s1 = "s1init", s2 = "s2init"; int flag = 0; std::map<std::string, double> wc; int errors = 0; int queries = 0; };

static std::string randcase(vf::Rng& r, std::string s) { for (auto& c : s) if (r.chance(1, 2)) c = (char)(isupper((unsigned char)c) ? tolower(c) : toupper(c)); return s; }

static long long zero_padded = 0;
// one well-formed assignment; cmdline: the token is a whole argv element
static std::string assignment(vf::Rng& r, Expect& e, bool cmdline, std::string& kind) {
  int which = (int)r.below(10);
  auto sep = [&]() -> std::string { int k = (int)r.below(cmdline ? 2 : 5); return k == 0 ? "=" : k == 1 ? (cmdline ? "=" : " ") : k == 2 ? " = " : k == 3 ? "= " : " =" ; };
  auto ival = [&]() { int v = r.chance(1, 6) ? (r.chance(1, 2) ? 2147483647 : -2147483647 - 1) : r.range(-100000, 100000); return v; };
  // integer values are decimal: leading zeros do not change the value ("010" is ten, not eight)
  auto istr = [&](int v, bool plus) { std::string d = std::to_string(v < 0 ? -(long long)v : (long long)v); std::string z = r.chance(1, 4) ? std::string(r.range(1, 4), '0') : ""; if (z.size()) ++zero_padded;
    return std::string(v < 0 ? "-" : plus ? "+" : "") + z + d; };
  auto dval = [&]() { double v; do v = vf::hostile_double(r, false); while (!std::isfinite(v)); return v; };
  auto dstr = [&](double v) { char b[64]; snprintf(b, sizeof b, r.chance(1, 4) && v == std::floor(v) && std::fabs(v) < 1e9 ? "%.0f" : "%.17g", v); return std::string(b); };
  auto sval = [&](bool allow_space) {
    static const char* pool[] = {"abc", "x", "file.lp", "/tmp/a-b_c.txt", "k=v", "a,b,c", "100", "1e5", "?x", "iopt1"};
    std::string s = pool[r.below(10)]; if (r.chance(1, 3)) { s.clear(); int n = r.range(1, 12); for (int i = 0; i < n; ++i) s += "abcXYZ019_-./:,+%@"[r.below(18)]; }
    if (allow_space && r.chance(1, 2)) s += " " + std::string(pool[r.below(7)]);
    return s; };
  switch (which) {
    case 0: { int v = ival(); std::string n = r.chance(1, 3) ? "oolsyn" : "iopt1"; e.i1 = v; kind = "int"; return n + sep() + istr(v, false); }
    case 1: { int v = ival(); static const char* ns[] = {"tech:i2", "ialias2", "ia2"}; size_t k = r.below(3); std::string n = k ? randcase(r, ns[k]) : ns[0]; e.i2 = v; kind = k ? "int-synonym" : "int"; return n + sep() + istr(v, v >= 0 && r.chance(1, 4)); }
    case 2: { double v = dval(); std::string n = r.chance(1, 3) ? "dool" : "dopt1"; e.d1 = v; kind = "double"; return n + sep() + dstr(v); }
    case 3: { double v = dval(); bool syn = r.chance(1, 2); std::string n = syn ? randcase(r, "dalias") : "lim:d2"; e.d2 = v; kind = syn ? "double-synonym" : "double"; return n + sep() + dstr(v); }
    case 4: case 5: {
      bool two = which == 5; bool syn = two && r.chance(1, 2); std::string n = two ? (syn ? randcase(r, "salias") : "str:s2") : "sopt1"; std::string& tgt = two ? e.s2 : e.s1;
      if (cmdline) { std::string v = sval(true); tgt = v; kind = "string-cmdline"; return n + sep() + v; }
      int q = (int)r.below(3);
      if (q == 0) { std::string v = sval(false); tgt = v; kind = "string-plain"; return n + sep() + v; }
      std::string v = sval(true); char qc = q == 1 ? '\'' : '"'; if (r.chance(1, 3)) v += (q == 1 ? "\"in\"" : "'in'");
      if (r.chance(1, 6)) v = "";                                         // boundary lengths of the quoted form: '' and 'x'
      else if (r.chance(1, 8)) v = std::string(1, "ab1 =?"[r.below(6)]);
      tgt = v; kind = q == 1 ? "string-single-quoted" : "string-double-quoted"; return n + sep() + qc + v + qc; }
    case 6: { double v = dval(); std::string key; int n = r.range(1, 5); for (int i = 0; i < n; ++i) key += "abcdXY0123"[r.below(10)]; bool syn = r.chance(1, 2);
      e.wc[key] = v; kind = syn ? "wildcard-synonym" : "wildcard"; return (syn ? "wc_" + key + "_val" : "wc:" + key + ":val") + sep() + dstr(v); }
    case 7: { ++e.flag; kind = "flag"; return r.chance(1, 2) ? "flagopt" : "tech:flagopt"; }
    case 8: { ++e.queries; static const char* ns[] = {"iopt1", "dopt1", "sopt1", "ialias2", "lim:d2", "oolsyn"}; kind = "query"; return std::string(ns[r.below(6)]) + (r.chance(1, 2) ? "=?" : " = ?"); }
    default: {   // error: unknown name or value given to a flag
      ++e.errors;
      if (r.chance(1, 2)) { kind = "error-unknown-name"; static const char* ns[] = {"nosuchoption", "iopt", "iopt11", "wc:only", "Xopt", "ialias", "ia", "oolsy", "o", "dali", "sal", "doo", "ialias22", "dalias_", "tech:i", "lim:d", "str:s"}; return std::string(ns[r.below(17)]) + "=" + std::to_string(r.range(0, 99)); }
      kind = "error-flag-with-value"; return std::string("flagopt=") + std::to_string(r.range(0, 99)); }
  }
}

static std::string hostile(vf::Rng& r) {
  std::string s; int n = r.range(1, 6);
  for (int i = 0; i < n; ++i) {
    switch (r.below(12)) {
      case 0: s += "sopt1='unterminated " + std::string(r.below(20), 'x'); break;
      case 1: s += "sopt1=\"unterminated"; break;
      case 2: s += "iopt1="; break;
      case 3: s += "=5"; break;
      case 4: s += "iopt1==5"; break;
      case 5: s += std::string(r.chance(1, 10) ? 200000 : r.range(1, 3000), "ab=1 '\""[r.below(8)]); break;
      case 6: for (int k = r.range(1, 40); k--;) s += (char)r.range(1, 255); break;
      case 7: s += "dopt1=1e99999 iopt1=99999999999999999999 dopt1=0x1p-5 iopt1=0x10"; break;
      case 8: s += "sopt1=a\tb\rc\vd\fe"; break;
      case 9: s += "wc::val=1 wc:*:val=2 wc_:_val=3 wc__val=4 wc:" + std::string(r.range(0, 300), 'k') + ":val=5"; break;
      case 10: s += "sopt1='' sopt1=\"\" sopt1=' ' '"; break;
      case 11: s += "iopt1 = ? ?=? ? iopt1=?x flagopt=? flagopt ?"; break;
    }
    s += r.chance(1, 2) ? " " : "";
  }
  return s;
}

static char* heap_copy(const std::string& s) { char* p = new char[s.size() + 1]; memcpy(p, s.c_str(), s.size() + 1); return p; }

int main(int argc, char** argv) {
  vf::Args A = vf::parse_args(argc, argv);
  for (long c = A.from; c < A.to; ++c) {
    vf::begin_case(c);
    vf::Rng r(A.seed, (uint64_t)c);
    bool is_hostile = r.chance(1, 4);
    Expect e; std::set<std::string> kinds; int n_assign = 0;
    std::string env_mp, env_exe, env_name; std::vector<std::string> args; bool use_exe = r.chance(1, 2), use_name = r.chance(1, 2), use_mp = r.chance(1, 2), set_exe_path = r.chance(2, 3);
    auto build = [&](bool cmdline, Expect& ex) { std::string s; int n = r.range(1, 6); for (int i = 0; i < n; ++i) { std::string k; std::string a = assignment(r, ex, cmdline, k); kinds.insert(k); ++n_assign; if (cmdline) { args.push_back(a); } else { s += (i ? (r.chance(1, 5) ? "  \t " : " ") : (r.chance(1, 5) ? " " : "")) + a; } } return s; };
    if (is_hostile) { env_mp = hostile(r); env_exe = hostile(r); env_name = hostile(r); int n = r.range(0, 3); for (int i = 0; i < n; ++i) args.push_back(hostile(r)); }
    else {
      // order of effect: mp_options, then <exe>_options if present else <solver>_options, then argv
      if (use_mp) env_mp = build(false, e);
      Expect shadow = e;   // the solver-named variable is ignored when the exe-named one exists
      bool exe_effective = use_exe && set_exe_path;
      if (use_exe) { if (exe_effective) env_exe = build(false, e); else { Expect dummy = e; env_exe = build(false, dummy); } }
      if (use_name) { if (exe_effective) { Expect dummy = e; env_name = build(false, dummy); } else env_name = build(false, e); }
      (void)shadow;
      if (r.chance(2, 3)) build(true, e);
    }
    // environment (setenv copies into exact-size heap blocks, which ASan guards)
    unsetenv("mp_options"); unsetenv("texe_options"); unsetenv("tsolver_options");
    if (is_hostile || use_mp) setenv("mp_options", env_mp.c_str(), 1);
    if (is_hostile || use_exe) setenv("texe_options", env_exe.c_str(), 1);
    if (is_hostile || use_name) setenv("tsolver_options", env_name.c_str(), 1);
    TS ts; ErrRec er; OutRec orc; ts.set_error_handler(&er); ts.set_output_handler(&orc);
    if (is_hostile || set_exe_path) ts.set_exe_path(r.chance(1, 2) ? "/some/dir/texe" : "texe.exe");
    std::vector<char*> av; for (auto& a : args) av.push_back(heap_copy(a)); av.push_back(nullptr);
    std::string exc; bool ret = false;
    try { ret = ts.ParseOptions(av.data(), r.chance(1, 2) ? (unsigned)mp::BasicSolver::NO_OPTION_ECHO : 0u); }
    catch (const mp::Error& ex) { exc = std::string("mp::Error:") + ex.what(); }
    catch (const std::exception& ex) { exc = std::string(typeid(ex).name()) + ":" + ex.what(); }
    for (char* p : av) delete[] p;
    std::vector<std::string> bad; std::string detail;
    auto fail = [&](const std::string& k, const std::string& d = "") { bad.push_back(k); if (detail.empty()) detail = k + ": " + d; };
    if (!is_hostile) {
      if (!exc.empty()) fail("exception-on-well-formed-input", exc);
      if (ts.i1 != e.i1) fail("int-option-value-differs", "iopt1 " + std::to_string(ts.i1) + " want " + std::to_string(e.i1));
      if (ts.i2 != e.i2) fail("int-option-value-differs", "tech:i2 " + std::to_string(ts.i2) + " want " + std::to_string(e.i2));
      if (memcmp(&ts.d1, &e.d1, 8) && !(ts.d1 == e.d1)) fail("double-option-value-differs", "dopt1 " + vf::jnum(ts.d1) + " want " + vf::jnum(e.d1));
      if (memcmp(&ts.d2, &e.d2, 8) && !(ts.d2 == e.d2)) fail("double-option-value-differs", "lim:d2 " + vf::jnum(ts.d2) + " want " + vf::jnum(e.d2));
      if (ts.s1 != e.s1) fail("string-option-value-differs", "sopt1 [" + ts.s1 + "] want [" + e.s1 + "]");
      if (ts.s2 != e.s2) fail("string-option-value-differs", "str:s2 [" + ts.s2 + "] want [" + e.s2 + "]");
      if (ts.flag != e.flag) fail("flag-count-differs", std::to_string(ts.flag) + " want " + std::to_string(e.flag));
      if (ts.wc != e.wc) fail("wildcard-option-values-differ");
      if (e.errors == 0) { if (!ret) fail("ParseOptions-false-without-error", er.msgs.empty() ? "" : er.msgs[0]); if (!er.msgs.empty()) fail("error-reported-for-well-formed-input", er.msgs[0]); }
      else { if (ret) fail("ParseOptions-true-despite-errors"); if (er.msgs.empty()) fail("error-not-reported"); }
      // typed getters agree with the stored variables
      try { if (ts.FindOption("iopt1")->GetValue<int>() != ts.i1 || ts.GetDblOption("dopt1") != ts.d1 || ts.GetStrOption("sopt1") != ts.s1 || ts.FindOption("ialias2")->GetValue<int>() != ts.i2) fail("getter-disagrees-with-stored-value"); }
      catch (const std::exception& ex) { fail("getter-threw", ex.what()); }
    } else {
      // hostile: must terminate without memory errors; only option errors may surface
      if (!exc.empty() && exc.compare(0, 9, "mp::Error") != 0) fail("hostile-input-escaped-as-non-mp-exception", exc);
    }
    std::string ks; for (auto& k : kinds) ks += (ks.empty() ? "" : ",") + k;
    vf::J j; j.i("case", c).b("hostile", is_hostile).i("assignments", n_assign).i("errors_expected", e.errors).i("errors_reported", (long long)er.msgs.size()).b("ret", ret).s("kinds", ks)
        .i("sources", (use_mp ? 1 : 0) + (use_exe ? 2 : 0) + (use_name ? 4 : 0) + (args.empty() ? 0 : 8) + (set_exe_path ? 16 : 0)).s("exc", exc.substr(0, 200)).s("detail", detail.substr(0, 500));
    std::sort(bad.begin(), bad.end()); bad.erase(std::unique(bad.begin(), bad.end()), bad.end());
    std::string bl = "["; for (size_t i = 0; i < bad.size(); ++i) { if (i) bl += ","; bl += "\"" + vf::jesc(bad[i]) + "\""; } bl += "]";
    j.raw("bad", bl);
    if (!bad.empty()) { j.s("mp_options", env_mp.substr(0, 2000)).s("texe_options", env_exe.substr(0, 2000)).s("tsolver_options", env_name.substr(0, 2000)); std::string al; for (auto& a : args) al += "[" + a.substr(0, 500) + "] "; j.s("argv", al); }
    vf::emit(j);
  }
  return 0;
}
