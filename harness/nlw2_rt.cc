// C03 monitor: NLFeeder(model) -> mp::WriteNLFile -> mp::ReadNLFile(recording handler) must give back the model,
// identically for text/binary x comments x bounds-first x column-size mode.
#include "nlmodel.h"
#include "mp/nl-writer2.h"
#include "mp/nl-writer2.hpp"
#include "mp/nl-opcodes.h"
#include <unistd.h>
#include <fstream>

using namespace nm;

// by-name mapping expr kind -> writer opcode constant (independent of the reader's opcode table)
static const mp::nl::Opcode* opcode_of(int kind) {
  switch (kind) {
#define X(K) case ex::K: return &mp::nl::K;
    X(ADD) X(SUB) X(MUL) X(DIV) X(MOD) X(POW) X(LESS) X(MIN) X(MAX) X(FLOOR) X(CEIL) X(ABS) X(MINUS) X(OR) X(AND) X(LT) X(LE) X(EQ) X(GE) X(GT) X(NE)
    X(NOT) X(IF) X(TANH) X(TAN) X(SQRT) X(SINH) X(SIN) X(LOG10) X(LOG) X(EXP) X(COSH) X(COS) X(ATANH) X(ATAN2) X(ATAN) X(ASINH) X(ASIN) X(ACOSH) X(ACOS)
    X(SUM) X(TRUNC_DIV) X(PRECISION) X(ROUND) X(TRUNC) X(COUNT) X(NUMBEROF) X(NUMBEROF_SYM) X(ATLEAST) X(ATMOST) X(PLTERM) X(IFSYM) X(EXACTLY)
    X(NOT_ATLEAST) X(NOT_ATMOST) X(NOT_EXACTLY) X(FORALL) X(EXISTS) X(IMPLICATION) X(IFF) X(ALLDIFF) X(NOT_ALLDIFF) X(POW_CONST_EXP) X(POW2) X(POW_CONST_BASE)
#undef X
  }
  return nullptr;
}

struct Feeder : mp::NLFeeder<Feeder, const E*> {
  const Model& m; bool binary, comments, bounds_first; int colmode; int defvar_split;
  std::vector<std::string> names_row, names_col;
  Feeder(const Model& mm) : m(mm) {}
  mp::NLHeader Header() {
    mp::NLHeader h;
    h.format = binary ? mp::NLHeader::BINARY : mp::NLHeader::TEXT;
    h.num_ampl_options = (int)m.opts.size(); for (size_t i = 0; i < m.opts.size(); ++i) h.ampl_options[i] = m.opts[i];
    h.ampl_vbtol = m.vbtol; h.prob_name = "verif";
    h.num_vars = m.nvars; h.num_algebraic_cons = m.ncons; h.num_objs = m.nobjs; h.num_ranges = m.nranges; h.num_eqns = m.neqns; h.num_logical_cons = m.nlogical;
    h.num_nl_cons = m.nlcons; h.num_nl_objs = m.nlobjs; h.num_compl_conds = m.ncompl_lin + m.ncompl_nl; h.num_nl_compl_conds = m.ncompl_nl;
    h.num_compl_dbl_ineqs = m.ncompl_dbl; h.num_compl_vars_with_nz_lb = m.ncompl_nzlb; h.num_nl_net_cons = m.nnet_nl; h.num_linear_net_cons = m.nnet_lin;
    h.num_nl_vars_in_cons = m.nlvc; h.num_nl_vars_in_objs = m.nlvo; h.num_nl_vars_in_both = m.nlvb; h.num_linear_net_vars = m.nwv; h.num_funcs = m.nfuncs; h.flags = m.flags;
    h.num_linear_binary_vars = m.nbv; h.num_linear_integer_vars = m.niv; h.num_nl_integer_vars_in_both = m.nlvbi; h.num_nl_integer_vars_in_cons = m.nlvci; h.num_nl_integer_vars_in_objs = m.nlvoi;
    h.num_con_nonzeros = (size_t)m.nzc; h.num_obj_nonzeros = (size_t)m.nzo;
    h.num_common_exprs_in_both = m.ce[0]; h.num_common_exprs_in_cons = m.ce[1]; h.num_common_exprs_in_objs = m.ce[2]; h.num_common_exprs_in_single_cons = m.ce[3]; h.num_common_exprs_in_single_objs = m.ce[4];
    return h;
  }
  bool WantNLComments() const { return comments; }
  int OutputPrecision() const { return 0; }
  bool WantBoundsFirst() const { return bounds_first; }
  int WantColumnSizes() const { return colmode; }
  const char* ObjDescription(int) { return "an objective"; }
  int ObjType(int i) { return m.objs[i].sense; }
  template <class W> void sparse(W& f, const Lin& l) { if (!l.t.empty()) { auto w = f.MakeVectorWriter(l.t.size()); for (auto& t : l.t) w.Write(t.first, t.second); } }
  template <class W> void FeedObjGradient(int i, W& f) { sparse(f, m.G[i]); }
  template <class W> void FeedObjExpression(int i, W& ew) { if (m.objs[i].has) ew.EPut(&m.objs[i].e); else ew.NPut(0.0); }
  // defined variable j is fed in call pos(j): 0, or before a constraint (k>0) / objective (k<0)
  int feedpos(size_t j) const { return m.ces[j].pos; }
  template <class W> void FeedDefinedVariables(int i, W& f) {
    for (size_t j = 0; j < m.ces.size(); ++j) if (feedpos(j) == i) {
      auto dv = f.StartDefVar(m.nvars + (int)j, (int)m.ces[j].lin.t.size(), "a defined variable");
      { auto lw = dv.GetLinExprWriter(); for (auto& t : m.ces[j].lin.t) lw.Write(t.first, t.second); }
      auto ew = dv.GetExprWriter(); ew.EPut(&m.ces[j].e);
    }
  }
  static double lbof(const Bound& b) { double inf = std::numeric_limits<double>::infinity(); return b.type == 0 || b.type == 2 || b.type == 4 ? b.lb : -inf; }
  static double ubof(const Bound& b) { double inf = std::numeric_limits<double>::infinity(); return b.type == 0 || b.type == 1 ? b.ub : b.type == 4 ? b.lb : inf; }
  template <class W> void FeedVarBounds(W& w) { for (auto& b : m.vb) w.WriteLbUb(lbof(b), ubof(b)); }
  template <class W> void FeedConBounds(W& w) {
    for (auto& b : m.cb) { AlgConRange r; if (b.type == 5) { r.k = b.cflags; r.cvar = b.cvar; } else { r.L = lbof(b); r.U = ubof(b); } w.WriteAlgConRange(r); }
  }
  const char* ConDescription(int) { return "a constraint"; }
  template <class W> void FeedLinearConExpr(int i, W& f) { sparse(f, m.J[i]); }
  template <class W> void FeedConExpression(int i, W& ew) {
    if (i < m.ncons) { if (m.cons[i].first) ew.EPut(&m.cons[i].second); else ew.NPut(0.0); }
    else ew.EPut(&m.lcons[i - m.ncons]);
  }
  template <class W> void FeedExpr(const E* e, W& ew) {
    switch (e->kind) {
      case ex::NUMBER: ew.NPut(e->num); return;
      case ex::BOOL: ew.NPut(e->bval ? 1 : 0); return;
      case ex::VARIABLE: ew.VPut(e->idx, "var"); return;
      case ex::COMMON_EXPR: ew.VPut(m.nvars + e->idx, "defvar"); return;
      case ex::STRING: ew.StrPut(e->s.c_str()); return;
      case ex::CALL: { auto a = ew.FuncPut(e->fn, (int)e->a.size(), "call"); for (auto& c : e->a) a.EPut(&c); return; }
      case ex::PLTERM: {
        auto a = ew.OPutN(mp::nl::PLTERM, 2 * (int)e->slopes.size());
        for (size_t i = 0; i < e->bps.size(); ++i) { a.NPut(e->slopes[i]); a.NPut(e->bps[i]); }
        a.NPut(e->slopes.back()); a.EPut(&e->a[0]); return; }
    }
    const mp::nl::Opcode* oc = opcode_of(e->kind);
    if (!oc) { fprintf(stderr, "harness: no opcode for kind %d\n", e->kind); abort(); }
    bool counted = e->kind == ex::MIN || e->kind == ex::MAX || e->kind == ex::SUM || e->kind == ex::NUMBEROF || e->kind == ex::NUMBEROF_SYM || e->kind == ex::COUNT ||
                   (e->kind >= ex::FIRST_ITERATED_LOGICAL && e->kind <= ex::LAST_ITERATED_LOGICAL) || (e->kind >= ex::FIRST_PAIRWISE && e->kind <= ex::LAST_PAIRWISE);
    if (counted) { auto a = ew.OPutN(*oc, (int)e->a.size()); for (auto& c : e->a) a.EPut(&c); }
    else if (e->a.size() == 1) { auto a = ew.OPut1(*oc); a.EPut(&e->a[0]); }
    else if (e->a.size() == 2) { auto a = ew.OPut2(*oc); a.EPut(&e->a[0]); a.EPut(&e->a[1]); }
    else { auto a = ew.OPut3(*oc); for (auto& c : e->a) a.EPut(&c); }
  }
  struct FD { const Func* f; const char* Name() { return f->name.c_str(); } int NumArgs() { return f->nargs; } int Type() { return f->type; } };
  FD Function(int i) { return FD{&m.funcs[i]}; }
  template <class W> void FeedColumnSizes(W& w) { for (int s : m.colsizes) w.Write(s); }
  template <class W> void FeedInitialGuesses(W& f) { if (!m.x0.empty()) { auto w = f.MakeVectorWriter(m.x0.size()); for (auto& v : m.x0) w.Write(v.first, v.second); } }
  template <class W> void FeedInitialDualGuesses(W& f) { if (!m.d0.empty()) { auto w = f.MakeVectorWriter(m.d0.size()); for (auto& v : m.d0) w.Write(v.first, v.second); } }
  template <class W> void FeedSuffixes(W& f) {
    for (auto& s : m.sufs) {
      if (s.flt) { auto w = f.StartDblSuffix(s.name.c_str(), s.kind | 4, (int)s.v.size()); for (auto& v : s.v) w.Write(v.first, v.second); }
      else { auto w = f.StartIntSuffix(s.name.c_str(), s.kind, (int)s.v.size()); for (auto& v : s.v) w.Write(v.first, (int)v.second); }
    }
  }
  template <class W> void FeedRowAndObjNames(W& w) { for (auto& n : names_row) w << n.c_str(); }
  template <class W> void FeedColNames(W& w) { for (auto& n : names_col) w << n.c_str(); }
};

static std::vector<std::string> read_lines(const std::string& p) { std::vector<std::string> v; std::ifstream f(p); std::string l; while (std::getline(f, l)) v.push_back(l); return v; }

int main(int argc, char** argv) {
  vf::Args A = vf::parse_args(argc, argv);
  std::string dir = A.get("--dir", ".");
  char stub[4096]; snprintf(stub, sizeof stub, "%s/nlw.%d", dir.c_str(), (int)getpid());
  for (long c = A.from; c < A.to; ++c) {
    vf::begin_case(c);
    vf::Rng r(A.seed, (uint64_t)c);
    Model m = gen_model(r, r.chance(2, 3));
    // adapt the model to what the feeder interface can express
    double inf = std::numeric_limits<double>::infinity(), dmax = std::numeric_limits<double>::max();
    auto fixb = [&](Bound& b) {   // +-DBL_MAX is the writer's documented infinity; NaN bounds are not orderable
      auto f = [&](double& v) { if (std::isnan(v)) v = 1; if (v >= dmax) v = inf; if (v <= -dmax) v = -inf; };
      f(b.lb); f(b.ub);
      if (b.type == 0 && b.lb == b.ub) b.type = 4;
      if (b.type == 0 && (b.lb == -inf || b.ub == inf)) b.type = b.lb == -inf ? (b.ub == inf ? 3 : 1) : 2;
      if (b.type == 1 && b.ub == inf) b.type = 3; if (b.type == 2 && b.lb == -inf) b.type = 3;
      if (b.type == 4 && std::isinf(b.lb)) b.type = 3;
      if (b.type == 5 && b.cflags == 0) b.cflags = 1 + (int)r.below(3);
    };
    for (auto& b : m.vb) fixb(b); for (auto& b : m.cb) fixb(b);
    // defined-variable feed positions: 0, before a constraint (1..ncons+nlogical) or an objective (-1..-nobjs)
    for (auto& ce : m.ces) { int w = (int)r.below(3); ce.pos = w == 0 || (m.ncons + m.nlogical == 0 && m.nobjs == 0) ? 0 : (w == 1 && m.ncons + m.nlogical > 0) ? r.range(1, m.ncons + m.nlogical) : m.nobjs > 0 ? -r.range(1, m.nobjs) : 0; }
    Feeder f(m);
    // names
    bool with_names = r.chance(1, 3);
    if (with_names) { for (int i = 0; i < m.ncons + m.nlogical + m.nobjs; ++i) f.names_row.push_back("row_" + std::to_string(i) + std::string(r.below(6), 'r')); for (int i = 0; i < m.nvars; ++i) f.names_col.push_back("x[" + std::to_string(i) + "]"); }
    std::vector<std::string> bad; std::string detail; std::string first_norm; int encodings = 0, first_enc = -1;
    auto exp = expected_lines(m);
    // expected "pos=" for objective-attached defined variables: position = ncons+nlogical+j for objective j-1
    for (auto& l : exp) { size_t p = l.find(" pos=-"); if (p != std::string::npos && l[0] == 'V') { size_t e = l.find(' ', p + 1); int k = atoi(l.c_str() + p + 5); l = l.substr(0, p) + " pos=" + std::to_string(m.ncons + m.nlogical - k) + l.substr(e); } }
    std::sort(exp.begin(), exp.end());
    std::set<std::string> ops;
    long total_events = 0;
    for (int enc = 0; enc < 24; ++enc) {
      f.binary = enc & 1; f.comments = (enc >> 1) & 1; f.bounds_first = (enc >> 2) & 1; f.colmode = enc / 8;
      if (m.nvars < 1 && f.colmode) continue;
      mp::NLUtils utils;
      std::string nl = std::string(stub) + ".nl"; unlink(nl.c_str());
      auto res = mp::WriteNLFile(stub, f, utils);
      if (m.nvars <= 0) { if (access(nl.c_str(), F_OK) == 0) bad.push_back("nl-file-written-for-a-model-without-variables"); continue; }
      if (res.first != NLW2_WriteNL_OK) { bad.push_back("writer-reported-failure"); detail = res.second; continue; }
      nr::Rec rec;
      std::string err;
      try { mp::ReadNLFile(nl, rec, 0); rec.finish_ok(); }
      catch (const std::exception& e) { err = e.what(); }
      ++encodings; total_events += rec.n_events;
      for (auto& o : rec.ops_seen) ops.insert(o);
      std::string tag = std::string(f.binary ? "binary" : "text");
      if (!err.empty()) { bad.push_back("written-file-rejected-by-reader:" + tag); if (detail.empty()) detail = "enc " + std::to_string(enc) + ": " + err; continue; }
      for (auto& v : rec.viol) { bad.push_back("reader-notification-inconsistent:" + v); }
      std::vector<std::string> got(rec.lines.begin() + 1, rec.lines.end());
      // column sizes line: present iff requested
      std::vector<std::string> want = exp;
      want.erase(std::remove_if(want.begin(), want.end(), [](const std::string& l) { return l[0] == 'k'; }), want.end());
      if (f.colmode) { std::string l = "k"; for (int s : m.colsizes) l += " " + std::to_string(s); want.push_back(l); }
      std::sort(want.begin(), want.end()); std::sort(got.begin(), got.end());
      if (got != want) {
        std::string cls = "?";
        for (size_t k = 0; k < std::max(got.size(), want.size()); ++k) {
          std::string g = k < got.size() ? got[k] : "<none>", e = k < want.size() ? want[k] : "<none>";
          if (g != e) { cls = std::string(1, (e != "<none>" ? e : g)[0]); if (detail.empty()) detail = "enc " + std::to_string(enc) + " expected [" + e.substr(0, 220) + "] got [" + g.substr(0, 220) + "]"; break; }
        }
        bad.push_back("model-read-back-differs:" + tag + ":segment-" + cls);
      }
      // header fields
      const mp::NLHeader& h = rec.h;
      if (h.num_vars != m.nvars || h.num_algebraic_cons != m.ncons || h.num_objs != m.nobjs || h.num_logical_cons != m.nlogical || h.num_funcs != m.nfuncs ||
          h.num_ranges != m.nranges || h.num_eqns != m.neqns || h.num_nl_cons != m.nlcons || h.num_nl_objs != m.nlobjs || h.num_linear_binary_vars != m.nbv ||
          h.num_linear_integer_vars != m.niv || (long)h.num_con_nonzeros != m.nzc || (long)h.num_obj_nonzeros != m.nzo || h.num_compl_conds != m.ncompl_lin + m.ncompl_nl ||
          h.num_nl_vars_in_cons != m.nlvc || h.num_nl_vars_in_objs != m.nlvo || h.num_nl_vars_in_both != m.nlvb || h.flags != m.flags ||
          h.num_common_exprs_in_both != m.ce[0] || h.num_common_exprs_in_cons != m.ce[1] || h.num_common_exprs_in_objs != m.ce[2] ||
          h.num_common_exprs_in_single_cons != m.ce[3] || h.num_common_exprs_in_single_objs != m.ce[4])
        bad.push_back("header-read-back-differs:" + tag);
      if (h.num_ampl_options != (int)m.opts.size()) bad.push_back("header-options-differ:" + tag);
      else { for (size_t i = 0; i < m.opts.size(); ++i) if (h.ampl_options[i] != m.opts[i]) { bad.push_back("header-options-differ:" + tag); break; }
             if (m.opts.size() >= 2 && m.opts[1] == 3 && h.ampl_vbtol != m.vbtol) { bad.push_back("header-vbtol-differs:" + tag); if (detail.empty()) detail = vf::jnum(m.vbtol) + " -> " + vf::jnum(h.ampl_vbtol); } }
      // text == binary (and every option combination): normalized stream identical
      std::string norm; { std::vector<std::string> g2 = got; g2.erase(std::remove_if(g2.begin(), g2.end(), [](const std::string& l) { return l[0] == 'k'; }), g2.end()); for (auto& l : g2) norm += l + "\n"; }
      if (first_enc < 0) { first_enc = enc; first_norm = norm; } else if (norm != first_norm) bad.push_back("encodings-of-one-model-differ");
      // names files
      if (with_names && enc == 0) {
        auto rw = read_lines(std::string(stub) + ".row"), cl = read_lines(std::string(stub) + ".col");
        if (rw != f.names_row) bad.push_back("row-names-file-differs"); if (cl != f.names_col) bad.push_back("col-names-file-differs");
        if (h.max_con_name_len < 0 || h.max_var_name_len < 0) bad.push_back("negative-name-length");
      }
    }
    std::string opss; for (auto& o : ops) opss += (opss.empty() ? "" : ",") + o;
    vf::J j; j.i("case", c).i("encodings", encodings).i("events", total_events).i("nvars", m.nvars).i("ncons", m.ncons).i("nobjs", m.nobjs).i("nlogical", m.nlogical).i("ncommon", m.ncommon())
        .i("nsuf", (long long)m.sufs.size()).i("nfuncs", m.nfuncs).s("ops", opss).s("detail", detail.substr(0, 600));
    std::sort(bad.begin(), bad.end()); bad.erase(std::unique(bad.begin(), bad.end()), bad.end());
    std::string bl = "["; for (size_t i = 0; i < bad.size(); ++i) { if (i) bl += ","; bl += "\"" + vf::jesc(bad[i]) + "\""; } bl += "]";
    j.raw("bad", bl);
    vf::emit(j);
  }
  for (const char* ext : {".nl", ".row", ".col", ".slc", ".unv", ".fix", ".adj"}) unlink((std::string(stub) + ext).c_str());
  return 0;
}
