// C15 monitor: the real SignalHandler driven through its life cycle with signals delivered
// (a) deterministically at every hook point (all schedules of up to 3 deliveries), one child process per schedule;
// (b) asynchronously from an interval timer at random instants (instruction-level delivery between the hooks).
#include "vfh.h"
#include "mp/solver-base.h"
#include "mp/solver-app-base.h"
#include <signal.h>
#include <unistd.h>
#include <sys/wait.h>
#include <sys/time.h>
#include <atomic>

using mp::internal::SignalHandler;

// ---- shared state (async-signal-safe: plain arrays and atomics) ----------------------------------------
static volatile sig_atomic_t g_phase = 0;          // last point passed (hook points and harness steps)
static int g_plan_point[3], g_plan_sig[3], g_plan_n = 0;   // deterministic schedule
static volatile sig_atomic_t g_plan_done[3];
struct CbRec { int fn, data, phase; };
static CbRec g_cb[64]; static volatile sig_atomic_t g_ncb = 0;
struct Delivery { int sig, phase; };
static Delivery g_del[16]; static volatile sig_atomic_t g_ndel = 0;
static volatile sig_atomic_t g_async_sig = 0;

static void cb_common(int fn, void* data) { int i = g_ncb; if (i < 64) { g_cb[i].fn = fn; g_cb[i].data = (int)(long)data; g_cb[i].phase = g_phase; g_ncb = i + 1; } }
static bool f1(void* d) { cb_common(1, d); return true; }
static bool f2(void* d) { cb_common(2, d); return true; }

static void deliver(int sig) { int i = g_ndel; if (i < 16) { g_del[i].sig = sig; g_del[i].phase = g_phase; g_ndel = i + 1; } raise(sig); }

static void point(int p) {   // hook + harness steps
  g_phase = p;
  for (int k = 0; k < g_plan_n; ++k) if (!g_plan_done[k] && g_plan_point[k] == p) { g_plan_done[k] = 1; deliver(g_plan_sig[k]); }
}
static void on_timer(int) { if (g_async_sig) deliver(g_async_sig); }

struct TS : mp::BasicSolver { TS() : mp::BasicSolver("tsolver", "Test Solver", 20240101, 0) {} };

// Life cycle. Records Stop() at every harness step into `stops` (bit per step).  Points:
//  1 start | ctor: 10 11 12 13 | 2 constructed | SetHandler#1: 20 21 22 | 3 registered1 | SetHandler#2: 20+100.. (120 121 122) | 4 registered2 |
//  5 solving | 6 reporting | dtor: 30..34 | 7 destroyed | 8 end
static int g_sethandler_no = 0;
static void hook(int p) { if (p >= 20 && p <= 22 && g_sethandler_no == 2) p += 100; point(p); }

struct StopLog { int step[16]; int val[16]; int n = 0; void add(int s, bool v) { if (n < 16) { step[n] = s; val[n] = v; ++n; } } };

static void spin(int n) { for (volatile int i = 0; i < n; ++i) {} }

static long g_arm_us = 0;
static void lifecycle(StopLog& sl, int spin_n) {
  TS solver;
  point(1);
  if (g_arm_us) { struct itimerval tv; memset(&tv, 0, sizeof tv); tv.it_value.tv_usec = g_arm_us; setitimer(ITIMER_REAL, &tv, 0); }   // armed only now: the solver object exists
  spin(spin_n);
  {
    SignalHandler sh(solver);
    point(2); sl.add(2, solver.interrupter()->Stop()); spin(spin_n);
    g_sethandler_no = 1; solver.interrupter()->SetHandler(f1, (void*)1L);
    point(3); sl.add(3, solver.interrupter()->Stop()); spin(spin_n);
    g_sethandler_no = 2; solver.interrupter()->SetHandler(f2, (void*)2L);
    point(4); sl.add(4, solver.interrupter()->Stop()); spin(spin_n);
    point(5); sl.add(5, solver.interrupter()->Stop()); spin(spin_n);
    point(6); sl.add(6, solver.interrupter()->Stop()); spin(spin_n);
  }
  point(7); spin(spin_n);
  point(8);
}

// serialise the child's observations on fd `fd`
static void report(int fd, const StopLog& sl) {
  char b[4096]; int n = snprintf(b, sizeof b, "{\"stops\":[");
  for (int i = 0; i < sl.n; ++i) n += snprintf(b + n, sizeof b - n, "%s[%d,%d]", i ? "," : "", sl.step[i], sl.val[i]);
  n += snprintf(b + n, sizeof b - n, "],\"cbs\":[");
  for (int i = 0; i < g_ncb; ++i) n += snprintf(b + n, sizeof b - n, "%s[%d,%d,%d]", i ? "," : "", g_cb[i].fn, g_cb[i].data, g_cb[i].phase);
  n += snprintf(b + n, sizeof b - n, "],\"dels\":[");
  for (int i = 0; i < g_ndel; ++i) n += snprintf(b + n, sizeof b - n, "%s[%d,%d]", i ? "," : "", g_del[i].sig, g_del[i].phase);
  n += snprintf(b + n, sizeof b - n, "]}");
  (void)!write(fd, b, n);
}

static const int POINTS[] = {11, 12, 13, 2, 20, 21, 22, 3, 120, 121, 122, 4, 5, 6, 30, 31, 32, 33, 34, 7};
static const int NPOINTS = sizeof POINTS / sizeof *POINTS;

// run one schedule in a child; returns JSON text of observations + exit info
static std::string run_child(int nplan, const int* pts, const int* sigs, int async_sig, long async_us, int spin_n, int& status, std::string& out_text) {
  int pr[2], po[2]; if (pipe(pr) || pipe(po)) return "";
  fflush(stdout);
  pid_t pid = fork();
  if (pid == 0) {
    close(pr[0]); close(po[0]); dup2(po[1], 1);
    g_plan_n = nplan; for (int i = 0; i < nplan; ++i) { g_plan_point[i] = pts[i]; g_plan_sig[i] = sigs[i]; g_plan_done[i] = 0; }
    mp::internal::mp_verif_sig_hook = hook;
    if (async_sig) { g_async_sig = async_sig; struct sigaction sa; memset(&sa, 0, sizeof sa); sa.sa_handler = on_timer; sigaction(SIGALRM, &sa, 0);
      g_arm_us = async_us; }
    StopLog sl; lifecycle(sl, spin_n);
    report(pr[1], sl);
    _exit(0);
  }
  close(pr[1]); close(po[1]);
  std::string obs; char b[4096]; ssize_t k;
  while ((k = read(pr[0], b, sizeof b)) > 0) obs.append(b, k);
  while ((k = read(po[0], b, sizeof b)) > 0) out_text.append(b, k);
  close(pr[0]); close(po[0]);
  waitpid(pid, &status, 0);
  return obs;
}

int main(int argc, char** argv) {
  vf::Args A = vf::parse_args(argc, argv);
  std::string mode = A.get("--mode", "enum");
  // enumeration space: schedules of 1..3 deliveries (non-decreasing point order; the same point may receive several signals)
  std::vector<std::vector<int>> scheds;
  for (int a = 0; a < NPOINTS; ++a) { scheds.push_back({a}); for (int b = a; b < NPOINTS; ++b) { scheds.push_back({a, b}); for (int c = b; c < NPOINTS; ++c) scheds.push_back({a, b, c}); } }
  if (A.has("--count")) { printf("%zu\n", scheds.size()); return 0; }
  for (long cs = A.from; cs < A.to; ++cs) {
    vf::begin_case(cs);
    vf::Rng r(A.seed, (uint64_t)cs);
    int pts[3], sigs[3], n = 0; int async_sig = 0; long async_us = 0; int spin_n = 0;
    if (mode == "enum") {
      auto& s = scheds[cs % scheds.size()]; n = (int)s.size();
      for (int i = 0; i < n; ++i) { pts[i] = POINTS[s[i]]; sigs[i] = (pts[i] == 11) ? SIGINT : (r.chance(1, 2) ? SIGINT : SIGTERM); }   // at point 11 only SIGINT is installed yet
    } else { async_sig = r.chance(1, 2) ? SIGINT : SIGTERM; spin_n = 1500; async_us = 1 + (long)r.below(45); }
    int status = 0; std::string text; std::string obs = run_child(n, pts, sigs, async_sig, async_us, spin_n, status, text);
    int breaks = 0; for (size_t p = text.find("<BREAK>"); p != std::string::npos; p = text.find("<BREAK>", p + 1)) ++breaks;
    vf::J j; j.i("case", cs).s("mode", mode).i("exited", WIFEXITED(status) ? WEXITSTATUS(status) : -1).i("signaled", WIFSIGNALED(status) ? WTERMSIG(status) : 0).i("breaks", breaks);
    std::string pl = "["; for (int i = 0; i < n; ++i) pl += (i ? "," : "") + std::string("[") + std::to_string(pts[i]) + "," + std::to_string(sigs[i]) + "]"; pl += "]";
    j.raw("plan", pl).i("async_us", async_us).raw("obs", obs.empty() ? "null" : obs);
    vf::emit(j);
  }
  return 0;
}
