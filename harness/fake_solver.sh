#!/bin/sh
# Stand-in "solver" for NLSolver::Solve(): delivers the prepared solution for the given stub.
cp "$1.presol" "$1.sol"
