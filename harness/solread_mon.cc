// C14 monitor: mp::SOLReader2 on valid and hostile .sol bytes under ASan/UBSan,
// with an online monitor inside the SOLHandler.
#include "solgen.h"
#include <unistd.h>
#include <exception>

using namespace sg;

static std::string mutate(vf::Rng& r, std::string b, bool binary, std::string& how) {
  static const char* toks[] = {"-1", "0", "1", "2", "3", "9", "10", "511", "512", "513", "514", "600", "1000000", "2147483647", "2147483648",
                               "4294967295", "99999999999999999999", "1e30", "-1e30", "nan", "inf", "1e999", "x", "", " ", "0x10", "1.5"};
  int m = (int)r.below(binary ? 7 : 10);
  auto lines = [&]() { std::vector<std::string> v; std::string cur; for (char c : b) { cur += c; if (c == '\n') { v.push_back(cur); cur.clear(); } } if (!cur.empty()) v.push_back(cur); return v; };
  auto join = [&](const std::vector<std::string>& v) { std::string o; for (auto& s : v) o += s; return o; };
  switch (m) {
    case 0: { how = "truncate"; if (!b.empty()) b.resize(r.below(b.size())); break; }
    case 1: { how = "flipbyte"; if (!b.empty()) { size_t i = r.below(b.size()); b[i] = (char)r.below(256); } break; }
    case 2: { how = "int-field";   // overwrite a 4-byte aligned int somewhere (binary) / digits (text)
      if (binary && b.size() >= 8) {
        static const int vals[] = {-1, 0, 1, 2, 6, 7, 511, 512, 513, 1000000, 0x7fffffff, (int)0x80000000, 28, 39, 47, 8, 4};
        size_t i = r.below(b.size() - 4); if (r.chance(3, 4)) i &= ~(size_t)3; if (i + 4 > b.size()) break;
        int v = vals[r.below(sizeof vals / sizeof *vals)]; memcpy(&b[i], &v, 4);
      } else { how = "flipbyte2"; if (!b.empty()) b[r.below(b.size())] = "0123456789 -\n\r\b\0x"[r.below(17)]; }
      break; }
    case 3: { how = "insert-nul"; if (!b.empty()) b.insert(r.below(b.size()), 1, '\0'); break; }
    case 4: { how = "dup-chunk"; if (b.size() > 4) { size_t i = r.below(b.size() - 1), n = 1 + r.below(std::min<size_t>(64, b.size() - i)); b.insert(i, b.substr(i, n)); } break; }
    case 5: { how = "del-chunk"; if (b.size() > 4) { size_t i = r.below(b.size() - 1), n = 1 + r.below(std::min<size_t>(32, b.size() - i)); b.erase(i, n); } break; }
    case 6: { how = "append-garbage"; int n = r.range(1, 40); for (int i = 0; i < n; ++i) b += (char)r.below(256); break; }
    case 7: { how = "replace-line"; auto v = lines(); if (!v.empty()) { v[r.below(v.size())] = std::string(toks[r.below(sizeof toks / sizeof *toks)]) + "\n"; b = join(v); } break; }
    case 8: { how = "suffix-header";  // rewrite one numeric field of a "suffix ..." header line or objno/Options count lines
      auto v = lines(); std::vector<size_t> c;
      for (size_t i = 0; i < v.size(); ++i) if (!v[i].compare(0, 7, "suffix ") || !v[i].compare(0, 6, "objno ")) c.push_back(i);
      if (c.empty()) { how = "long-line"; if (!v.empty()) { size_t i = r.below(v.size()); v[i] = std::string(r.range(505, 5000), "1 x9"[r.below(4)]) + v[i]; b = join(v); } break; }
      size_t li = c[r.below(c.size())];
      std::vector<std::string> f; std::string cur; for (char ch : v[li]) { if (ch == ' ' || ch == '\n') { f.push_back(cur); cur.clear(); } else cur += ch; }
      if (f.size() > 1) { f[1 + r.below(f.size() - 1)] = toks[r.below(sizeof toks / sizeof *toks)]; std::string o; for (size_t i = 0; i < f.size(); ++i) { if (i) o += " "; o += f[i]; } v[li] = o + "\n"; b = join(v); }
      break; }
    case 9: { how = "long-line"; auto v = lines(); if (!v.empty()) { size_t i = r.below(v.size()); int n = r.chance(1, 2) ? r.range(505, 520) : r.range(521, 6000); v[i] = std::string(n, "1 x9.e"[r.below(6)]) + (r.chance(1, 2) ? v[i] : "\n"); b = join(v); } break; }
  }
  return b;
}

// stated name/table length bounds found in the bytes (sound upper bounds, see DESIGN C14)
static void stated_bounds(const std::string& b, bool binary, long& max_namelen, long& max_tablen) {
  max_namelen = max_tablen = -1;
  if (binary) {
    for (size_t p = b.find("\nSuffix\n"); p != std::string::npos; p = b.find("\nSuffix\n", p + 1)) {
      if (p + 8 + 16 <= b.size()) { int h[4]; memcpy(h, &b[p + 8], 16); max_namelen = std::max<long>(max_namelen, h[2]); max_tablen = std::max<long>(max_tablen, h[3]); }
    }
  } else {
    for (size_t p = 0; p < b.size();) {
      size_t e = b.find('\n', p); if (e == std::string::npos) e = b.size();
      if (!b.compare(p, 7, "suffix ")) {
        long f[5] = {0, 0, 0, 0, 0}; const char* s = b.c_str() + p + 7; char* se; int k = 0;
        for (; k < 5; ++k) { f[k] = strtol(s, &se, 10); if (se == s) break; s = se; }
        if (k >= 4) { max_namelen = std::max(max_namelen, f[2]); max_tablen = std::max(max_tablen, f[3]); }
      }
      p = e + 1;
    }
  }
}

int main(int argc, char** argv) {
  vf::Args A = vf::parse_args(argc, argv);
  std::string dir = A.get("--dir", ".");
  std::string replay = A.get("--file", "");
  char path[4096]; snprintf(path, sizeof path, "%s/solmon.%d.sol", dir.c_str(), (int)getpid());
  for (long c = A.from; c < A.to; ++c) {
    vf::begin_case(c);
    vf::Rng r(A.seed, (uint64_t)c);
    Sol s = gen(r, false);   // non-finite values are C05's rejection clause
    int fmt = (int)r.below(5);  // 0,1 text; 2 text CRLF; 3,4 binary
    bool binary = fmt >= 3;
    std::string how = "valid"; int nmut = 0;
    bool lens_off = false;
    if (!s.sufs.empty() && r.chance(1, 8)) {      // declared name/table length off by one or two (the classic boundary of the length checks)
      auto& sf = s.sufs[r.below(s.sufs.size())]; static const int dl[] = {-1, 1, 2, -2};
      if (r.chance(1, 2) || sf.table.empty()) sf.namelen_delta = dl[r.below(4)]; else sf.tablen_delta = dl[r.below(4)];
      lens_off = true;
    }
    std::string bytes = binary ? encode_binary(s) : encode_text(s, fmt == 2);
    if (lens_off) how = "suffix-length-off";
    if (!lens_off && !r.chance(1, 6)) { nmut = r.chance(3, 4) ? 1 : r.range(2, 4); std::string h; how = ""; for (int i = 0; i < nmut; ++i) { bytes = mutate(r, bytes, binary, h); how += (i ? "+" : "") + h; } }
    Handler h; h.rng = &r;
    h.policy = r.chance(2, 3) ? 0 : r.range(1, 2);
    // declared sizes: equal / smaller / larger / zero
    int dm = (int)r.below(6);
    h.hdr.num_vars = dm == 0 ? 0 : dm == 1 ? std::max(0, s.nvars - r.range(1, 3)) : dm == 2 ? s.nvars + r.range(1, 5) : s.nvars;
    h.hdr.num_algebraic_cons = dm == 0 ? 0 : dm == 1 ? std::max(0, s.ncons - r.range(1, 3)) : dm == 2 ? s.ncons + r.range(1, 5) : s.ncons;
    if (dm == 5) { h.hdr.num_vars = s.nvars; h.hdr.num_algebraic_cons = std::max(0, s.ncons - 1); }
    if (!replay.empty()) {
      FILE* f = fopen(replay.c_str(), "rb"); bytes.clear(); int ch; while (f && (ch = fgetc(f)) != EOF) bytes += (char)ch; if (f) fclose(f);
      binary = bytes.size() > 10 && !bytes.compare(4, 6, "binary");
    }
    if (A.has("--dump-dir")) {     // corpus for the libFuzzer tier: 3 header bytes (declared sizes, policy) + the file
      std::string hd; hd += (char)(h.hdr.num_vars % 16); hd += (char)(h.hdr.num_algebraic_cons % 16); hd += (char)h.policy;
      write_file(A.get("--dump-dir", ".") + "/c" + std::to_string(c), hd + bytes); vf::J j; j.i("case", c); vf::emit(j); continue;
    }
    if (!write_file(path, bytes)) { fprintf(stderr, "harness: cannot write %s\n", path); return 3; }
    mp::NLUtils utils;
    int code = -100; std::string emsg, exc;
    try {
      auto res = mp::ReadSOLFile(path, h, utils);
      code = (int)res.first; emsg = res.second;
    } catch (const std::bad_alloc&) { exc = "std::bad_alloc"; }
    catch (const std::exception& e) { exc = std::string("exception:") + typeid(e).name(); }
    // ---- oracle
    std::vector<std::string> bad; int valid_state = 0;
    if (!exc.empty() && exc != "std::bad_alloc") bad.push_back("escaped-" + exc);
    if (exc.empty()) {
      if (code < 0 || code > (int)NLW2_SOLRead_Bad_Suffix) bad.push_back("undocumented-return-code");
      if (code != 0 && emsg.empty()) bad.push_back("error-code-without-message:code" + std::to_string(code));
    }
    if (h.n_dual > 1 || h.n_primal > 1 || h.n_msg > 1 || h.n_objno > 1 || h.n_code > 1) bad.push_back("callback-repeated");
    if (h.dual.offered > h.hdr.num_algebraic_cons) bad.push_back("dual-values-offered-exceed-declared-constraints");
    if (h.primal.offered > h.hdr.num_vars) bad.push_back("primal-values-offered-exceed-declared-variables");
    if (h.dual.offered < 0 || h.primal.offered < 0) bad.push_back("negative-count-offered");
    if (h.dual.error_swallowed || h.primal.error_swallowed) bad.push_back("vector-read-error-swallowed");
    long mxn, mxt; stated_bounds(bytes, binary, mxn, mxt);
    for (auto& sf : h.sufs) {
      if (sf.error_swallowed) bad.push_back("suffix-read-error-swallowed");
      if (sf.offered < 0) bad.push_back("negative-count-offered");
      if (!(bytes.size() >= 4 && !memcmp(bytes.data(), "\6\0\0\0", 4)) && sf.name.find('\n') != std::string::npos) bad.push_back("suffix-name-contains-a-line-break");   // text: a name is cut out of one line
      if ((long)sf.name.size() > std::max<long>(0, mxn - (binary ? 0 : 1))) bad.push_back("suffix-name-longer-than-stated");
      if ((long)sf.table.size() > std::max<long>(0, mxt)) bad.push_back("suffix-table-longer-than-stated");
    }
    if (code == 0 && exc.empty()) {
      // success must not hide an unfinished or failed vector
      auto chk = [&](const RecVec& v, const char* n) { if (v.offered > 0 && (v.final_rr != 0 || v.taken < v.offered)) bad.push_back(std::string("ok-returned-but-vector-incomplete:") + n); };
      chk(h.dual, "dual"); chk(h.primal, "primal"); for (auto& sf : h.sufs) chk(sf, "suffix");
    }
    if (how == "valid" && replay.empty() && exc.empty()) {
      // an unmodified file read with its own sizes and a draining handler must be accepted
      bool sizes_ok = s.options.empty() ? (h.hdr.num_vars == s.nvars && h.hdr.num_algebraic_cons == s.ncons)
                                        : (h.hdr.num_vars >= s.nvars && h.hdr.num_algebraic_cons >= s.ncons);
      if (sizes_ok && h.policy == 0) valid_state = code == 0 ? 1 : 2;   // harness self-check only (acceptance is C05's claim)
    }
    vf::J j; j.i("case", c).s("how", how).b("binary", binary).i("fmt", fmt).i("policy", h.policy).i("code", code).s("exc", exc).i("bytes", (long long)bytes.size());
    j.i("nsuf", (long long)h.sufs.size()).i("dual_offered", h.dual.offered).i("primal_offered", h.primal.offered).s("emsg", emsg.substr(0, 120)).i("valid_state", valid_state);
    std::string bl = "["; for (size_t i = 0; i < bad.size(); ++i) { if (i) bl += ","; bl += "\"" + vf::jesc(bad[i]) + "\""; } bl += "]";
    j.raw("bad", bl);
    if (!bad.empty()) { std::string hex; for (unsigned char ch : bytes.substr(0, 6000)) { char t[4]; snprintf(t, 4, "%02x", ch); hex += t; } j.s("hex", hex); j.i("decl_vars", h.hdr.num_vars).i("decl_cons", h.hdr.num_algebraic_cons); }
    vf::emit(j);
  }
  unlink(path);
  return 0;
}
