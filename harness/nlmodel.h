// Random NL model description, independent text/binary NL encoders and the canonical event
// lines a reader must report for it (same line syntax as nlrec.h).  Used by C02/C03.
#ifndef NLMODEL_H_
#define NLMODEL_H_
#include "vfh.h"
#include "nlrec.h"
#include "mp/common.h"
#include <algorithm>

namespace nm {
namespace ex = mp::expr;

struct E {   // expression tree node
  int kind = 0; double num = 0; int idx = 0; std::string s; int fn = -1; bool bval = false;
  int numfmt = 0;   // 0 'n', 1 's', 2 'l' constant encoding (value must fit)
  std::vector<double> slopes, bps; std::vector<E> a;
};

struct Lin { std::vector<std::pair<int, double>> t; };
struct Suffix { int kind; bool flt; std::string name; std::vector<std::pair<int, double>> v; };
struct Func { std::string name; int type; int nargs; };
struct Bound { int type; double lb, ub; int cvar = 0, cflags = 0; };   // type 0..5 as in the NL format

struct Model {
  // header
  int nvars = 0, ncons = 0, nobjs = 0, nranges = 0, neqns = 0, nlogical = 0;
  int nlcons = 0, nlobjs = 0, ncompl_lin = 0, ncompl_nl = 0, ncompl_dbl = 0, ncompl_nzlb = 0;
  int nnet_nl = 0, nnet_lin = 0, nlvc = 0, nlvo = 0, nlvb = 0, nwv = 0, nfuncs = 0, flags = 0;
  int nbv = 0, niv = 0, nlvbi = 0, nlvci = 0, nlvoi = 0; long nzc = 0, nzo = 0; int maxcname = 0, maxvname = 0;
  int ce[5] = {0, 0, 0, 0, 0};
  std::vector<long> opts; double vbtol = 0;
  // body
  std::vector<Func> funcs;
  std::vector<Suffix> sufs;
  struct CE { Lin lin; E e; int pos; };
  std::vector<CE> ces;
  std::vector<std::pair<bool, E>> cons;      // (has nonlinear part, expr)
  std::vector<E> lcons;
  struct Obj { int sense; bool has; E e; };
  std::vector<Obj> objs;
  std::vector<std::pair<int, double>> x0, d0;
  std::vector<Bound> vb, cb;
  int colmode = 1;                           // 0 none, 1 'k' cumulative, 2 'K' plain
  std::vector<int> colsizes;                 // nvars-1 plain sizes
  std::vector<Lin> J, G;                     // per constraint / objective (empty = no segment)
  int ncommon() const { return ce[0] + ce[1] + ce[2] + ce[3] + ce[4]; }
};

// ------------------------------------------------------------------ generator
struct Gen {
  vf::Rng& r; const Model& m; bool hostile_numbers;
  double number() {
    if (hostile_numbers) return vf::hostile_double(r, r.chance(1, 8));
    return r.chance(1, 2) ? r.range(-20, 20) : r.range(-400, 400) / 8.0;
  }
  E constant() {
    E e; e.kind = ex::NUMBER; e.num = number();
    if (e.num == std::floor(e.num) && std::fabs(e.num) < 30000 && r.chance(1, 3)) e.numfmt = 1 + (int)r.below(2);
    return e;
  }
  E ref() {
    E e; int nc = m.ncommon();
    if (nc > 0 && r.chance(1, 4)) { e.kind = ex::COMMON_EXPR; e.idx = (int)r.below(nc); }
    else if (m.nvars > 0) { e.kind = ex::VARIABLE; e.idx = (int)r.below(m.nvars); }
    else return constant();
    return e;
  }
  std::string str() { static const char* p[] = {"", "a", "abc", "two words", "x\ny", "q'uote", "\xc3\xa9", "0123456789"}; return p[r.below(8)]; }
  E num(int d) {
    E e; int c = d <= 0 ? (int)r.below(2) : (int)r.below(13);
    switch (c) {
      case 0: return constant();
      case 1: return ref();
      case 2: e.kind = r.range(ex::FIRST_UNARY, ex::LAST_UNARY); e.a.push_back(num(d - 1)); break;
      case 3: case 4: e.kind = r.range(ex::FIRST_BINARY, ex::LAST_BINARY); e.a.push_back(num(d - 1)); e.a.push_back(num(d - 1)); break;
      case 5: e.kind = ex::IF; e.a.push_back(logical(d - 1)); e.a.push_back(num(d - 1)); e.a.push_back(num(d - 1)); break;
      case 6: {
        E rf = ref(); if (rf.kind == ex::NUMBER) return rf;
        e.kind = ex::PLTERM; int nb = r.range(1, 4); double b = r.range(-10, 10);
        for (int i = 0; i < nb; ++i) { e.bps.push_back(hostile_numbers && r.chance(1, 5) ? number() : b); b += r.range(1, 5); }
        for (int i = 0; i <= nb; ++i) e.slopes.push_back(number());
        e.a.push_back(rf); break; }
      case 7: {
        if (m.nfuncs == 0) return num(d - 1);
        e.kind = ex::CALL; e.fn = (int)r.below(m.nfuncs); int n = r.range(0, 3);
        for (int i = 0; i < n; ++i) e.a.push_back(r.chance(1, 3) ? sym(d - 1) : num(d - 1)); break; }
      case 8: { e.kind = r.chance(1, 2) ? ex::MIN : ex::MAX; int n = r.range(1, 4); for (int i = 0; i < n; ++i) e.a.push_back(num(d - 1)); break; }
      case 9: { e.kind = ex::SUM; int n = r.range(3, 5); for (int i = 0; i < n; ++i) e.a.push_back(num(d - 1)); break; }
      case 10: { e.kind = ex::NUMBEROF; int n = r.range(1, 4); for (int i = 0; i < n; ++i) e.a.push_back(num(d - 1)); break; }
      case 11: return count(d);
      case 12: { e.kind = ex::NUMBEROF_SYM; int n = r.range(1, 3); for (int i = 0; i < n; ++i) e.a.push_back(sym(d - 1)); break; }
    }
    return e;
  }
  E count(int d) { E e; e.kind = ex::COUNT; int n = r.range(1, 4); for (int i = 0; i < n; ++i) e.a.push_back(logical(d - 1)); return e; }
  E logical(int d) {
    E e; int c = d <= 0 ? (int)r.below(2) : (int)r.below(9);
    switch (c) {
      case 0: e.kind = ex::BOOL; e.bval = r.chance(1, 2); e.numfmt = (int)r.below(3); break;
      case 1: e.kind = r.range(ex::FIRST_RELATIONAL, ex::LAST_RELATIONAL); e.a.push_back(num(d - 1)); e.a.push_back(num(d - 1)); break;
      case 2: e.kind = ex::NOT; e.a.push_back(logical(d - 1)); break;
      case 3: case 4: e.kind = r.range(ex::FIRST_BINARY_LOGICAL, ex::LAST_BINARY_LOGICAL); e.a.push_back(logical(d - 1)); e.a.push_back(logical(d - 1)); break;
      case 5: e.kind = r.range(ex::FIRST_LOGICAL_COUNT, ex::LAST_LOGICAL_COUNT); e.a.push_back(num(d - 1)); e.a.push_back(count(d - 1)); break;
      case 6: e.kind = ex::IMPLICATION; e.a.push_back(logical(d - 1)); e.a.push_back(logical(d - 1)); e.a.push_back(logical(d - 1)); break;
      case 7: { e.kind = r.range(ex::FIRST_ITERATED_LOGICAL, ex::LAST_ITERATED_LOGICAL); int n = r.range(3, 5); for (int i = 0; i < n; ++i) e.a.push_back(logical(d - 1)); break; }
      case 8: { e.kind = r.range(ex::FIRST_PAIRWISE, ex::LAST_PAIRWISE); int n = r.range(1, 4); for (int i = 0; i < n; ++i) e.a.push_back(num(d - 1)); break; }
    }
    return e;
  }
  E sym(int d) {
    E e; int c = (int)r.below(d > 0 ? 4 : 3);
    if (c == 0) return num(d);
    if (c < 3) { e.kind = ex::STRING; e.s = str(); return e; }
    e.kind = ex::IFSYM; e.a.push_back(logical(d - 1)); e.a.push_back(sym(d - 1)); e.a.push_back(sym(d - 1)); return e;
  }
};

inline Lin gen_lin(vf::Rng& r, int nvars, bool hostile, int maxterms = 6) {
  Lin l; if (nvars <= 0) return l;
  int n = r.range(1, std::min(nvars, maxterms)); std::vector<int> vs;
  for (int i = 0; i < nvars; ++i) vs.push_back(i);
  for (int i = 0; i < n; ++i) { size_t j = i + r.below(vs.size() - i); std::swap(vs[i], vs[j]); }
  vs.resize(n); std::sort(vs.begin(), vs.end());
  for (int v : vs) l.t.push_back({v, hostile ? vf::hostile_double(r, false) : r.range(-9, 9) / 2.0});
  return l;
}

inline Model gen_model(vf::Rng& r, bool hostile_numbers) {
  Model m;
  m.nvars = r.chance(1, 15) ? r.range(0, 1) : r.range(1, 9);
  m.ncons = r.chance(1, 6) ? 0 : r.range(1, 6);
  m.nobjs = r.range(0, 3);
  m.nlogical = r.chance(1, 2) ? 0 : r.range(1, 3);
  m.nfuncs = r.chance(1, 2) ? 0 : r.range(1, 3);
  for (int i = 0; i < 5 && m.nvars > 1; ++i) m.ce[i] = r.chance(1, 4) ? (int)r.below(std::min(3, m.nvars)) : 0;
  int k = r.chance(1, 6) ? 0 : r.range(1, 9);
  for (int i = 0; i < k; ++i) m.opts.push_back(r.range(0, 4));
  if (k >= 2 && m.opts[1] == 3 && !r.chance(1, 2)) m.opts[1] = 1;
  if (k >= 2 && m.opts[1] == 3) m.vbtol = r.range(1, 99) / 1024.0;
  m.flags = (int)r.below(2); m.maxcname = r.range(0, 12); m.maxvname = r.range(0, 12);
  m.nbv = (int)r.below(m.nvars + 1); m.niv = (int)r.below(m.nvars - m.nbv + 1);
  m.nlvc = (int)r.below(m.nvars + 1); m.nlvo = (int)r.below(m.nvars + 1); m.nlvb = (int)r.below(std::min(m.nlvc, m.nlvo) + 1);
  m.nranges = (int)r.below(m.ncons + 1); m.neqns = (int)r.below(m.ncons + 1);
  Gen g{r, m, hostile_numbers};
  for (int i = 0; i < m.nfuncs; ++i) { static const char* fn[] = {"f", "gfun", "a_long_function_name", "sq"}; m.funcs.push_back({std::string(fn[r.below(4)]) + std::to_string(i), (int)r.below(2), r.range(-3, 4)}); }
  for (int i = 0; i < m.ncommon(); ++i) { Model::CE c; if (r.chance(1, 2)) c.lin = gen_lin(r, m.nvars, hostile_numbers, 3); c.e = g.num(r.range(0, 3)); c.pos = r.range(0, 3); m.ces.push_back(c); }
  for (int i = 0; i < m.ncons; ++i) { bool has = r.chance(2, 3); m.cons.push_back({has, has ? g.num(r.range(0, 4)) : E()}); if (has) ++m.nlcons; }
  for (int i = 0; i < m.nlogical; ++i) m.lcons.push_back(g.logical(r.range(1, 4)));
  for (int i = 0; i < m.nobjs; ++i) { bool has = r.chance(2, 3); m.objs.push_back({(int)r.below(2), has, has ? g.num(r.range(0, 4)) : E()}); if (has) ++m.nlobjs; }
  for (int i = 0; i < m.nvars; ++i) if (r.chance(1, 3)) m.x0.push_back({i, g.number()});
  for (int i = 0; i < m.ncons; ++i) if (r.chance(1, 3)) m.d0.push_back({i, g.number()});
  for (int i = 0; i < m.nvars; ++i) { Bound b; b.type = (int)r.below(5); b.lb = g.number(); b.ub = g.number(); m.vb.push_back(b); }
  for (int i = 0; i < m.ncons; ++i) {
    Bound b; b.type = (int)r.below(m.nvars > 0 ? 6 : 5); b.lb = g.number(); b.ub = g.number();
    if (b.type == 5) { b.cvar = (int)r.below(m.nvars); b.cflags = (int)r.below(4); ++m.ncompl_lin; }
    m.cb.push_back(b);
  }
  m.colmode = (int)r.below(3); if (m.nvars < 1) m.colmode = 0;
  for (int i = 0; i + 1 < m.nvars; ++i) m.colsizes.push_back(r.range(0, 4));
  for (int i = 0; i < m.ncons; ++i) { m.J.push_back(r.chance(3, 4) ? gen_lin(r, m.nvars, hostile_numbers) : Lin()); m.nzc += (long)m.J.back().t.size(); }
  for (int i = 0; i < m.nobjs; ++i) { m.G.push_back(r.chance(3, 4) ? gen_lin(r, m.nvars, hostile_numbers) : Lin()); m.nzo += (long)m.G.back().t.size(); }
  int ns = r.range(0, 3);
  for (int i = 0; i < ns; ++i) {
    Suffix s; s.kind = (int)r.below(4); s.flt = r.chance(1, 2); static const char* sn[] = {"sstatus", "priority", "ref", "zork", "a_b_c"}; s.name = std::string(sn[r.below(5)]) + std::to_string(i);
    int ni = s.kind == 0 ? m.nvars : s.kind == 1 ? m.ncons + m.nlogical : s.kind == 2 ? m.nobjs : 1;
    for (int j = 0; j < ni; ++j) if (r.chance(1, 2)) s.v.push_back({j, s.flt ? g.number() : (double)r.range(-7, 9)});
    if (!s.v.empty()) m.sufs.push_back(s);
  }
  return m;
}

// ------------------------------------------------------------------ encoders
struct Sink {
  bool binary = false, swap = false; std::string o;
  template <class T> void raw(T v) { char b[sizeof(T)]; memcpy(b, &v, sizeof(T)); if (swap) std::reverse(b, b + sizeof(T)); o.append(b, sizeof(T)); }
  bool need_sp = false;
  void ch(char c) { o += c; need_sp = false; }
  void sp() { if (!binary && need_sp) o += ' '; }
  void uint(long v) { if (binary) raw<int>((int)v); else { sp(); o += std::to_string(v); need_sp = true; } }
  void sht(int v) { if (binary) raw<short>((short)v); else { sp(); o += std::to_string(v); need_sp = true; } }
  void dbl(double v) { if (binary) raw<double>(v); else { sp(); char b[40]; snprintf(b, sizeof b, "%.17g", v); o += b; need_sp = true; } }
  void name(const std::string& s) { if (binary) { raw<int>((int)s.size()); o += s; } else { sp(); o += s; need_sp = true; } }
  void hstr(const std::string& s) { if (binary) { raw<int>((int)s.size()); o += s; } else { o += std::to_string(s.size()) + ":" + s + "\n"; need_sp = false; } }
  void eol() { if (!binary) o += '\n'; need_sp = false; }
};

inline void emit_expr(Sink& k, const E& e, const Model& m) {
  auto op = [&](int kind) { k.ch('o'); k.uint(ex::nl_opcode((ex::Kind)kind)); k.eol(); };
  auto cst = [&](double v, int fmt) {
    if (fmt == 1) { k.ch('s'); k.sht((int)v); k.eol(); }
    else if (fmt == 2) { k.ch('l'); k.uint((long)v); k.eol(); }
    else { k.ch('n'); k.dbl(v); k.eol(); }
  };
  switch (e.kind) {
    case ex::NUMBER: cst(e.num, e.numfmt); return;
    case ex::BOOL: cst(e.bval ? 1 : 0, e.numfmt); return;
    case ex::VARIABLE: k.ch('v'); k.uint(e.idx); k.eol(); return;
    case ex::COMMON_EXPR: k.ch('v'); k.uint(m.nvars + e.idx); k.eol(); return;
    case ex::STRING: k.ch('h'); k.hstr(e.s); return;
    case ex::CALL: k.ch('f'); k.uint(e.fn); k.uint((long)e.a.size()); k.eol(); for (auto& c : e.a) emit_expr(k, c, m); return;
    case ex::PLTERM:
      op(e.kind); k.uint((long)e.slopes.size()); k.eol();
      for (size_t i = 0; i < e.bps.size(); ++i) { cst(e.slopes[i], 0); cst(e.bps[i], 0); }
      cst(e.slopes.back(), 0); emit_expr(k, e.a[0], m); return;
  }
  op(e.kind);
  bool counted = e.kind == ex::MIN || e.kind == ex::MAX || e.kind == ex::SUM || e.kind == ex::NUMBEROF || e.kind == ex::NUMBEROF_SYM || e.kind == ex::COUNT ||
                 (e.kind >= ex::FIRST_ITERATED_LOGICAL && e.kind <= ex::LAST_ITERATED_LOGICAL) || (e.kind >= ex::FIRST_PAIRWISE && e.kind <= ex::LAST_PAIRWISE);
  if (counted) { k.uint((long)e.a.size()); k.eol(); }
  for (auto& c : e.a) emit_expr(k, c, m);
}

inline void emit_bounds(Sink& k, const std::vector<Bound>& bs) {
  for (auto& b : bs) {
    k.ch((char)('0' + b.type));
    switch (b.type) {
      case 0: k.need_sp = true; k.dbl(b.lb); k.dbl(b.ub); break;
      case 1: k.need_sp = true; k.dbl(b.ub); break;
      case 2: k.need_sp = true; k.dbl(b.lb); break;
      case 3: break;
      case 4: k.need_sp = true; k.dbl(b.lb); break;
      case 5: k.need_sp = true; k.uint(b.cflags); k.uint(b.cvar + 1); break;
    }
    k.eol();
  }
}

// Order of body segments can be permuted by the caller through `order` (string of segment letters).
inline std::string emit(const Model& m, bool binary, bool swap, const std::string& pad = "", const char* order = "FSVCLOdxrbkJG") {
  Sink k; k.binary = false;
  // header is always text
  std::string& o = k.o;
  o += binary ? 'b' : 'g'; o += std::to_string(m.opts.size());
  for (long v : m.opts) o += " " + std::to_string(v);
  if (m.opts.size() >= 2 && m.opts[1] == 3) { char b[40]; snprintf(b, sizeof b, " %.17g", m.vbtol); o += b; }
  o += "\t# problem verif" + pad + "\n";
  auto L = [&](std::initializer_list<long> v) { for (long x : v) o += " " + std::to_string(x); o += "\n"; };
  L({m.nvars, m.ncons, m.nobjs, m.nranges, m.neqns, m.nlogical});
  L({m.nlcons, m.nlobjs, m.ncompl_lin, m.ncompl_nl, m.ncompl_dbl, m.ncompl_nzlb});
  L({m.nnet_nl, m.nnet_lin});
  L({m.nlvc, m.nlvo, m.nlvb});
  L({m.nwv, m.nfuncs, binary ? (swap ? 2 : 1) : 0, m.flags});
  L({m.nbv, m.niv, m.nlvbi, m.nlvci, m.nlvoi});
  L({m.nzc, m.nzo});
  L({m.maxcname, m.maxvname});
  L({m.ce[0], m.ce[1], m.ce[2], m.ce[3], m.ce[4]});
  k.binary = binary; k.swap = swap;
  for (const char* s = order; *s; ++s) switch (*s) {
    case 'F': for (size_t i = 0; i < m.funcs.size(); ++i) { k.ch('F'); k.uint((long)i); k.uint(m.funcs[i].type); k.uint(m.funcs[i].nargs); if (binary && m.funcs[i].nargs < 0) { k.o.resize(k.o.size() - 4); k.raw<int>(m.funcs[i].nargs); } k.name(m.funcs[i].name); k.eol(); } break;
    case 'S': for (auto& sf : m.sufs) { k.ch('S'); k.uint(sf.kind | (sf.flt ? 4 : 0)); k.uint((long)sf.v.size()); k.name(sf.name); k.eol(); for (auto& v : sf.v) { k.uint(v.first); if (sf.flt) k.dbl(v.second); else { if (binary) k.raw<int>((int)v.second); else { k.sp(); k.o += std::to_string((long)v.second); k.need_sp = true; } } k.eol(); } } break;
    case 'V': for (size_t i = 0; i < m.ces.size(); ++i) { k.ch('V'); k.uint(m.nvars + (long)i); k.uint((long)m.ces[i].lin.t.size()); k.uint(m.ces[i].pos); k.eol(); for (auto& t : m.ces[i].lin.t) { k.uint(t.first); k.dbl(t.second); k.eol(); } emit_expr(k, m.ces[i].e, m); } break;
    case 'C': for (size_t i = 0; i < m.cons.size(); ++i) { k.ch('C'); k.uint((long)i); k.eol(); if (m.cons[i].first) emit_expr(k, m.cons[i].second, m); else { k.ch('n'); k.dbl(0); k.eol(); } } break;
    case 'L': for (size_t i = 0; i < m.lcons.size(); ++i) { k.ch('L'); k.uint((long)i); k.eol(); emit_expr(k, m.lcons[i], m); } break;
    case 'O': for (size_t i = 0; i < m.objs.size(); ++i) { k.ch('O'); k.uint((long)i); k.uint(m.objs[i].sense); k.eol(); if (m.objs[i].has) emit_expr(k, m.objs[i].e, m); else { k.ch('n'); k.dbl(0); k.eol(); } } break;
    case 'd': if (!m.d0.empty()) { k.ch('d'); k.uint((long)m.d0.size()); k.eol(); for (auto& v : m.d0) { k.uint(v.first); k.dbl(v.second); k.eol(); } } break;
    case 'x': if (!m.x0.empty()) { k.ch('x'); k.uint((long)m.x0.size()); k.eol(); for (auto& v : m.x0) { k.uint(v.first); k.dbl(v.second); k.eol(); } } break;
    case 'r': if (m.ncons > 0) { k.ch('r'); k.eol(); emit_bounds(k, m.cb); } break;
    case 'b': k.ch('b'); k.eol(); emit_bounds(k, m.vb); break;
    case 'k': if (m.colmode) { k.ch(m.colmode == 1 ? 'k' : 'K'); k.uint((long)m.colsizes.size()); k.eol(); long cum = 0; for (int s2 : m.colsizes) { cum += s2; k.uint(m.colmode == 1 ? cum : s2); k.eol(); } } break;
    case 'J': for (size_t i = 0; i < m.J.size(); ++i) if (!m.J[i].t.empty()) { k.ch('J'); k.uint((long)i); k.uint((long)m.J[i].t.size()); k.eol(); for (auto& t : m.J[i].t) { k.uint(t.first); k.dbl(t.second); k.eol(); } } break;
    case 'G': for (size_t i = 0; i < m.G.size(); ++i) if (!m.G[i].t.empty()) { k.ch('G'); k.uint((long)i); k.uint((long)m.G[i].t.size()); k.eol(); for (auto& t : m.G[i].t) { k.uint(t.first); k.dbl(t.second); k.eol(); } } break;
  }
  return k.o;
}

// ------------------------------------------------------------------ expected canonical lines
inline std::string canon_expr(const E& e) {
  using nr::dbits;
  auto kn = [](int k) { return std::string(ex::str((ex::Kind)k)) + ":" + std::to_string(k); };
  std::string o = "(";
  switch (e.kind) {
    case ex::NUMBER: return "(n" + dbits(e.num) + ")";
    case ex::BOOL: return e.bval ? "(T)" : "(F)";
    case ex::VARIABLE: return "(v" + std::to_string(e.idx) + ")";
    case ex::COMMON_EXPR: return "(e" + std::to_string(e.idx) + ")";
    case ex::STRING: return "(h" + vf::jesc(e.s) + ")";
    case ex::PLTERM: { o += kn(e.kind); for (size_t i = 0; i < e.bps.size(); ++i) o += " s" + dbits(e.slopes[i]) + " b" + dbits(e.bps[i]); o += " s" + dbits(e.slopes.back()); break; }
    case ex::CALL: o += "call f" + std::to_string(e.fn) + "#" + std::to_string(e.a.size()); break;
    default: {
      o += kn(e.kind);
      bool counted = e.kind == ex::MIN || e.kind == ex::MAX || e.kind == ex::SUM || e.kind == ex::NUMBEROF || e.kind == ex::NUMBEROF_SYM || e.kind == ex::COUNT ||
                     (e.kind >= ex::FIRST_ITERATED_LOGICAL && e.kind <= ex::LAST_ITERATED_LOGICAL) || (e.kind >= ex::FIRST_PAIRWISE && e.kind <= ex::LAST_PAIRWISE);
      if (counted) o += "#" + std::to_string(e.a.size());
    }
  }
  for (auto& c : e.a) o += " " + canon_expr(c);
  return o + ")";
}

inline bool is_zero_const(const E& e) { return e.kind == ex::NUMBER && e.num == 0; }

// Lines that do not depend on reader flags or on how the header is printed; sorted.
inline std::vector<std::string> expected_lines(const Model& m) {
  using nr::dbits; std::vector<std::string> v;
  for (size_t i = 0; i < m.funcs.size(); ++i) v.push_back("F " + std::to_string(i) + " " + std::to_string(m.funcs[i].type) + " " + std::to_string(m.funcs[i].nargs) + " " + vf::jesc(m.funcs[i].name));
  for (auto& s : m.sufs) { std::string l = std::string("S") + (s.flt ? "d" : "i") + " " + std::to_string(s.kind) + " " + vf::jesc(s.name); for (auto& x : s.v) l += " " + std::to_string(x.first) + ":" + dbits(x.second); v.push_back(l); }
  for (size_t i = 0; i < m.ces.size(); ++i) {
    std::string l = "V " + std::to_string(i) + " lin"; for (auto& t : m.ces[i].lin.t) l += " " + std::to_string(t.first) + ":" + dbits(t.second); v.push_back(l);
    v.push_back("V " + std::to_string(i) + " pos=" + std::to_string(m.ces[i].pos) + " " + canon_expr(m.ces[i].e));
  }
  for (size_t i = 0; i < m.cons.size(); ++i) v.push_back("C " + std::to_string(i) + " " + (m.cons[i].first && !is_zero_const(m.cons[i].second) ? canon_expr(m.cons[i].second) : "-"));
  for (size_t i = 0; i < m.lcons.size(); ++i) v.push_back("L " + std::to_string(i) + " " + canon_expr(m.lcons[i]));
  for (size_t i = 0; i < m.objs.size(); ++i) v.push_back("O " + std::to_string(i) + " " + std::to_string(m.objs[i].sense ? 1 : 0) + " " + (m.objs[i].has && !is_zero_const(m.objs[i].e) ? canon_expr(m.objs[i].e) : "-"));
  for (auto& x : m.d0) v.push_back("d " + std::to_string(x.first) + " " + dbits(x.second));
  for (auto& x : m.x0) v.push_back("x " + std::to_string(x.first) + " " + dbits(x.second));
  double inf = std::numeric_limits<double>::infinity();
  auto bl = [&](const char* tag, size_t i, const Bound& b) {
    double lb = b.type == 0 || b.type == 2 || b.type == 4 ? b.lb : -inf, ub = b.type == 0 ? b.ub : b.type == 1 ? b.ub : b.type == 4 ? b.lb : inf;
    return std::string(tag) + " " + std::to_string(i) + " " + dbits(lb) + " " + dbits(ub);
  };
  for (size_t i = 0; i < m.vb.size(); ++i) v.push_back(bl("b", i, m.vb[i]));
  for (size_t i = 0; i < m.cb.size(); ++i) {
    if (m.cb[i].type == 5) v.push_back("c " + std::to_string(i) + " " + std::to_string(m.cb[i].cvar) + " " + dbits((m.cb[i].cflags & 2) ? -inf : 0) + " " + dbits((m.cb[i].cflags & 1) ? inf : 0));
    else v.push_back(bl("r", i, m.cb[i]));
  }
  if (m.colmode) { std::string l = "k"; for (int s : m.colsizes) l += " " + std::to_string(s); v.push_back(l); }
  for (size_t i = 0; i < m.J.size(); ++i) if (!m.J[i].t.empty()) { std::string l = "J " + std::to_string(i); for (auto& t : m.J[i].t) l += " " + std::to_string(t.first) + ":" + dbits(t.second); v.push_back(l); }
  for (size_t i = 0; i < m.G.size(); ++i) if (!m.G[i].t.empty()) { std::string l = "G " + std::to_string(i); for (auto& t : m.G[i].t) l += " " + std::to_string(t.first) + ":" + dbits(t.second); v.push_back(l); }
  std::sort(v.begin(), v.end());
  return v;
}

}  // namespace nm
#endif
