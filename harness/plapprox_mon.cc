// C13 monitor: mp::PLApproximate<Con> (the function the converter calls) measured against long-double libm.
#include "vfh.h"
#include "mp/flat/constr_std.h"
#include "mp/flat/redef/MIP/core/lin_approx_core.h"
#include "mp/error.h"
#include <functional>
#include <typeinfo>

using namespace mp;
typedef long double LD;

struct Fn { const char* name; int id; std::function<LD(LD)> f; double natlo, nathi; };   // natural (mathematical) domain

static const double PI = 3.14159265358979323846;
static std::vector<double> g_skipped;   // breakpoints dropped by PLPoints::AddPoint in the current case (MP_VERIF_HOOKS)
static void on_skip(double x, double) { if (g_skipped.size() < 2000000) g_skipped.push_back(x); }

struct Case { int fid; double prm; double lbx, ubx, lby, uby; bool isint; double tol; std::string shape; };

template <class Con> static void call0(PLApproxParams& p) { Con c{typename Con::Arguments{0}}; PLApproximate(c, p); }
template <class Con> static void call1(PLApproxParams& p, double a) { Con c{typename Con::Arguments{0}, typename Con::Parameters{a}}; PLApproximate(c, p); }

static void run_lib(const Case& c, PLApproxParams& p) {
  switch (c.fid) {
    case 0: call0<ExpConstraint>(p); break; case 1: call0<LogConstraint>(p); break;
    case 2: call1<ExpAConstraint>(p, c.prm); break; case 3: call1<LogAConstraint>(p, c.prm); break;
    case 4: call1<PowConstraint>(p, c.prm); break;
    case 5: call0<SinConstraint>(p); break; case 6: call0<CosConstraint>(p); break; case 7: call0<TanConstraint>(p); break;
    case 8: call0<AsinConstraint>(p); break; case 9: call0<AcosConstraint>(p); break; case 10: call0<AtanConstraint>(p); break;
    case 11: call0<SinhConstraint>(p); break; case 12: call0<CoshConstraint>(p); break; case 13: call0<TanhConstraint>(p); break;
    case 14: call0<AsinhConstraint>(p); break; case 15: call0<AcoshConstraint>(p); break; case 16: call0<AtanhConstraint>(p); break;
  }
}
static const char* FN[] = {"exp", "log", "expa", "loga", "pow", "sin", "cos", "tan", "asin", "acos", "atan", "sinh", "cosh", "tanh", "asinh", "acosh", "atanh"};

static LD truef(const Case& c, LD x) {
  switch (c.fid) {
    case 0: return expl(x); case 1: return logl(x); case 2: return powl((LD)c.prm, x); case 3: return logl(x) / logl((LD)c.prm);
    case 4: return powl(x, (LD)c.prm); case 5: return sinl(x); case 6: return cosl(x); case 7: return tanl(x);
    case 8: return asinl(x); case 9: return acosl(x); case 10: return atanl(x); case 11: return sinhl(x); case 12: return coshl(x);
    case 13: return tanhl(x); case 14: return asinhl(x); case 15: return acoshl(x); default: return atanhl(x);
  }
}

// error in the property's metric: relative where |f| > 1, absolute otherwise
static LD err_metric(LD f, LD y) { LD d = fabsl(f - y); return fabsl(f) > 1 ? d / fabsl(f) : d; }

static LD pl_eval(const PLPoints& pl, size_t seg, LD x) {
  LD x0 = pl.x_[seg], x1 = pl.x_[seg + 1], y0 = pl.y_[seg], y1 = pl.y_[seg + 1];
  return y0 + (y1 - y0) * (x - x0) / (x1 - x0);
}

// maximal error on segment `seg`; xmap maps the PL argument to the function argument (periodic shift)
static LD seg_max_err(const Case& c, const PLPoints& pl, size_t seg, LD shift, LD& at) {
  LD a = pl.x_[seg], b = pl.x_[seg + 1]; const int N = 48; LD best = -1; int bi = 0;
  auto e = [&](LD r) { LD f = truef(c, r + shift); if (!std::isfinite((double)f)) return (LD)0; return err_metric(f, pl_eval(pl, seg, r)); };
  for (int i = 0; i <= N; ++i) { LD r = a + (b - a) * i / N; LD v = e(r); if (v > best) { best = v; bi = i; } }
  // golden-section refinement around the best sample
  LD lo = a + (b - a) * std::max(0, bi - 1) / N, hi = a + (b - a) * std::min(N, bi + 1) / N; const LD g = 0.6180339887498949L;
  LD x1 = hi - g * (hi - lo), x2 = lo + g * (hi - lo), f1 = e(x1), f2 = e(x2);
  for (int it = 0; it < 40; ++it) { if (f1 < f2) { lo = x1; x1 = x2; f1 = f2; x2 = lo + g * (hi - lo); f2 = e(x2); } else { hi = x2; x2 = x1; f2 = f1; x1 = hi - g * (hi - lo); f1 = e(x1); } }
  LD xb = (f1 > f2) ? x1 : x2, vb = std::max(f1, f2);
  if (vb > best) { best = vb; at = xb; } else at = a + (b - a) * bi / N;
  return best;
}

static Case gen(vf::Rng& r) {
  Case c; c.fid = (int)r.below(17); c.prm = 0; c.isint = r.chance(1, 5);
  static const double tols[] = {1e-1, 1e-2, 1e-2, 1e-3, 1e-4, 1e-5, 1e-6}; c.tol = tols[r.below(7)];
  if (c.fid == 2 || c.fid == 3) { static const double b[] = {0.1, 0.5, 0.9, 1.5, 2, 2.718281828, 10, 50}; c.prm = b[r.below(8)]; }
  if (c.fid == 4) { static const double e[] = {-9, -3, -2, -1.5, -1, -0.5, 0.1, 0.5, 1.5, 2, 2.5, 3, 4, 5, 9}; c.prm = e[r.below(15)]; }
  // natural domain of the function
  double lo = -1e6, hi = 1e6;
  switch (c.fid) { case 1: case 3: lo = 0; break; case 4: if (c.prm < 0 || c.prm != std::floor(c.prm)) lo = 0; break; case 8: case 9: lo = -1; hi = 1; break; case 15: lo = 1; break; case 16: lo = -1; hi = 1; break; }
  double scale = (c.fid == 0 || c.fid == 11 || c.fid == 12) ? 20 : (c.fid == 2 ? 30 : (hi - lo > 10 ? std::pow(10.0, r.range(0, 6)) : hi - lo));
  int shape = (int)r.below(8); static const char* sh[] = {"generic", "tiny", "huge", "straddles-zero", "domain-clipped", "integer-endpoints", "non-float-endpoints", "around-period"};
  c.shape = sh[shape];
  double a = lo + r.unit() * std::min(scale, hi - lo), w = r.unit() * std::min(scale, hi - lo);
  switch (shape) {
    case 0: break;
    case 1: w = std::pow(10.0, -r.range(3, 6)) * (1 + r.unit()); break;
    case 2: a = lo; w = hi - lo; break;
    case 3: a = -r.unit() * std::min(scale, 50.0); w = -a + r.unit() * std::min(scale, 50.0); break;
    case 4: a = lo - r.unit() * 3; w = (hi - lo) * r.unit() + 3; break;
    case 5: a = std::floor(a); w = 1 + std::floor(r.unit() * std::min(scale, 40.0)); break;
    case 6: a = a + 0.1; w = w + 1.0 / 3; break;
    case 7: a = (r.range(-3, 3)) * PI / 2 - r.unit(); w = r.unit() * 4 * PI; break;
  }
  if (c.isint && r.chance(1, 2)) { a = std::floor(a); w = std::floor(w) + 1; if (w > 60) w = r.range(1, 60); }
  c.lbx = a; c.ubx = a + w;
  if (r.chance(3, 4)) { c.lby = -1e6; c.uby = 1e6; } else { c.lby = -r.unit() * 100; c.uby = r.unit() * 100 + 0.5; }
  return c;
}

int main(int argc, char** argv) {
  vf::Args A = vf::parse_args(argc, argv);
  for (long cs = A.from; cs < A.to; ++cs) {
    vf::begin_case(cs);
    vf::Rng r(A.seed, (uint64_t)cs);
    Case c = gen(r);
    PLApproxParams p; p.grDom = {c.lbx, c.ubx, c.lby, c.uby}; p.is_x_int = c.isint; p.ubErr = c.tol;
    std::string exc, outcome = "pl"; std::vector<std::string> bad; std::string detail;
    auto fail = [&](const std::string& k, const std::string& d = "") { bad.push_back(k); if (detail.empty()) detail = k + ": " + d; };
    g_skipped.clear(); mp::mp_verif_plpoint_skipped = on_skip;
    try { run_lib(c, p); }
    catch (const mp::Error& e) { outcome = "refused"; exc = e.what(); }
    catch (const std::exception& e) { outcome = "exception"; exc = std::string(typeid(e).name()) + ": " + e.what(); }
    const PLPoints& pl = p.plPoints; LD worst = 0; double worst_at = 0, worst_seglen = 0; LD worst_a = 0, worst_b = 0, worst_shift = 0; size_t npts = pl.x_.size(); bool int_shortcut = false;
    if (outcome == "exception") fail(std::string("unexpected-exception:") + FN[c.fid], exc);
    if (outcome == "pl") {
      if (pl.x_.size() != pl.y_.size() || pl.x_.empty()) fail("malformed-point-list");
      else {
        for (size_t i = 0; i + 1 < npts; ++i) if (!(pl.x_[i] < pl.x_[i + 1])) { fail("breakpoints-not-strictly-increasing", std::to_string(i)); break; }
        for (size_t i = 0; i < npts; ++i) if (!std::isfinite(pl.x_[i]) || !std::isfinite(pl.y_[i])) { fail("non-finite-breakpoint"); break; }
        auto tau = [](double v, double w) { return 1e-9 * std::max({1.0, std::fabs(v), std::fabs(w)}); };
        double dlo = p.fUsePeriod ? p.periodRemainderRange.lb : p.grDomOut.lbx, dhi = p.fUsePeriod ? p.periodRemainderRange.ub : p.grDomOut.ubx;
        if (bad.empty() && npts >= 2) {
          auto endchk = [&](double bp, double dom, bool first) {
            if (std::fabs(bp - dom) <= tau(bp, dom)) return;
            if (c.isint && !p.fUsePeriod && bp == (first ? std::ceil(dom) : std::floor(dom))) return;   // integer argument: first/last integer of the domain
            bool inside = first ? bp > dom : bp < dom;
            std::string k = std::string(first ? "first" : "last") + "-breakpoint-differs-from-reported-domain:" + (inside ? (first ? "starts-late" : "ends-early") : (first ? "starts-early" : "ends-late"));
            if (inside) for (double x : g_skipped) if (std::fabs(x - dom) <= tau(x, dom)) { k += ":end-breakpoint-dropped-by-the-1e-4-spacing-rule"; break; }
            fail(k, vf::jnum(bp) + " vs " + vf::jnum(dom));
          };
          endchk(pl.x_.front(), dlo, true); endchk(pl.x_.back(), dhi, false);
        }
        if (bad.empty() || npts >= 2) {
          if (!p.fUsePeriod) {
            // integer shortcut: one breakpoint per integer -> exact there
            if (c.isint && npts >= 1) {
              double x0 = std::ceil(p.grDomOut.lbx), xN = std::floor(p.grDomOut.ubx);
              if ((double)npts == xN - x0 + 1) { bool all = true; for (size_t i = 0; i < npts; ++i) if (pl.x_[i] != x0 + (double)i) all = false;
                if (all) { int_shortcut = true; for (size_t i = 0; i < npts; ++i) { LD f = truef(c, pl.x_[i]); if (err_metric(f, pl.y_[i]) > 1e-12L) { fail("integer-breakpoint-not-exact", vf::jnum(pl.x_[i])); break; } } } }
            }
            if (!int_shortcut && c.isint) {
              // integer argument: only the integers of the covered domain are arguments of the function
              double x0 = std::ceil(pl.x_.front()), xN = std::floor(pl.x_.back()); size_t s = 0; double step = std::max(1.0, std::floor((xN - x0) / 4000));
              for (double x = x0; x <= xN; x += step) { while (s + 2 < npts && pl.x_[s + 1] < x) ++s; if (npts < 2) break; LD f = truef(c, x); if (!std::isfinite((double)f)) continue; LD e = err_metric(f, pl_eval(pl, s, x)); if (e > worst) { worst = e; worst_at = x; worst_seglen = pl.x_[s + 1] - pl.x_[s]; worst_a = pl.x_[s]; worst_b = pl.x_[s + 1]; worst_shift = 0; } }
            }
            if (!int_shortcut && !c.isint) for (size_t s = 0; s + 1 < npts && bad.size() < 3; ++s) {
              LD at; LD e = seg_max_err(c, pl, s, 0, at); if (e > worst) { worst = e; worst_at = (double)at; worst_seglen = pl.x_[s + 1] - pl.x_[s]; worst_a = pl.x_[s]; worst_b = pl.x_[s + 1]; worst_shift = 0; }
            }
          } else {
            // periodic: x = period*k + r, r in the remainder range; check the k's whose x lies in the requested argument interval
            double L = p.periodLength; std::vector<double> ks = {p.periodicFactorRange.lb, p.periodicFactorRange.ub, std::floor((p.periodicFactorRange.lb + p.periodicFactorRange.ub) / 2), p.periodicFactorRange.lb + 1, p.periodicFactorRange.ub - 1};
            if (!(L > 0)) fail("non-positive-period");
            else {
              // coverage: every x of the reported argument domain must be L*k + r with an integer k of the factor range and r of the remainder range
              double klo = std::ceil(p.periodicFactorRange.lb), khi = std::floor(p.periodicFactorRange.ub);
              double rlo = p.periodRemainderRange.lb, rhi = p.periodRemainderRange.ub;
              double need_lo = std::max(p.grDomOut.lbx, c.lbx), need_hi = std::min(p.grDomOut.ubx, c.ubx);
              bool everywhere_defined = !strcmp(FN[c.fid], "sin") || !strcmp(FN[c.fid], "cos");   // tan leaves gaps around its poles by design
              if (klo > khi) fail("periodic-factor-range-empty");
              else if (everywhere_defined) {
                if (L * klo + rlo > need_lo + 1e-9 * std::max(1.0, std::fabs(need_lo))) fail("periodic-decomposition-does-not-cover-domain:low-end", "smallest representable " + vf::jnum(L * klo + rlo) + " domain starts " + vf::jnum(need_lo));
                if (L * khi + rhi < need_hi - 1e-9 * std::max(1.0, std::fabs(need_hi))) fail("periodic-decomposition-does-not-cover-domain:high-end", "largest representable " + vf::jnum(L * khi + rhi) + " domain ends " + vf::jnum(need_hi));
                if (khi > klo && rhi - rlo < L * (1 - 1e-9)) fail("periodic-decomposition-does-not-cover-domain:gaps", "remainder range shorter than the period");
              }
            }
            if (L > 0) for (double k : ks) {
              if (k < p.periodicFactorRange.lb || k > p.periodicFactorRange.ub) continue;
              for (size_t s = 0; s + 1 < npts; ++s) {
                // only where x = L*k + r is inside [lbx, ubx]
                double xa = L * k + pl.x_[s], xb = L * k + pl.x_[s + 1]; if (xb < c.lbx || xa > c.ubx) continue;
                LD at; LD e = seg_max_err(c, pl, s, (LD)L * (LD)k, at); if (e > worst) { worst = e; worst_at = (double)(at + (LD)L * k); worst_seglen = pl.x_[s + 1] - pl.x_[s]; worst_a = pl.x_[s]; worst_b = pl.x_[s + 1]; worst_shift = (LD)L * (LD)k; }
              }
            }
          }
          if ((double)worst > c.tol * (1 + 1e-6)) {
            double ratio = (double)worst / c.tol;
            // PLPoints::AddPoint drops breakpoints closer than 1e-4 to their predecessor: segments of (about) that length are where this shows
            // Attribution (exact, through the hook): does the violating segment span breakpoints the approximator computed but AddPoint dropped?
            std::string where = ":on-a-regular-segment", dbg;
            { size_t nsk = 0; for (double x : g_skipped) if (x > (double)worst_a && x < (double)worst_b) ++nsk;
              if (nsk) where = ":segment-spans-breakpoints-dropped-by-the-1e-4-spacing-rule";
              dbg = " segment [" + vf::jnum((double)worst_a) + "," + vf::jnum((double)worst_b) + "] dropped breakpoints inside: " + std::to_string(nsk); }
            fail(std::string("error-exceeds-tolerance:") + FN[c.fid] + (ratio > 2 ? ":more-than-2x" : ratio > 1.01 ? ":1.01x-2x" : ":within-1-percent") + where,
                 "max error " + vf::jnum((double)worst) + " at x=" + vf::jnum(worst_at) + " tol " + vf::jnum(c.tol) + " ratio " + vf::jnum(ratio) + " segment length " + vf::jnum(worst_seglen) + dbg);
          }
        }
      }
    }
    vf::J j; j.i("case", cs).s("fn", FN[c.fid]).d("prm", c.prm).d("lbx", c.lbx).d("ubx", c.ubx).d("lby", c.lby).d("uby", c.uby).b("isint", c.isint).d("tol", c.tol).s("shape", c.shape)
        .s("outcome", outcome).i("npts", (long long)npts).b("periodic", p.fUsePeriod).b("int_shortcut", int_shortcut).d("worst_over_tol", (double)worst / c.tol).s("exc", exc.substr(0, 160)).s("detail", detail.substr(0, 400));
    std::sort(bad.begin(), bad.end()); bad.erase(std::unique(bad.begin(), bad.end()), bad.end());
    std::string bl = "["; for (size_t i = 0; i < bad.size(); ++i) { if (i) bl += ","; bl += "\"" + vf::jesc(bad[i]) + "\""; } bl += "]";
    j.raw("bad", bl);
    vf::emit(j);
  }
  return 0;
}
