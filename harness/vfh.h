// Common helpers for verification harnesses (not part of ampl/mp).
#ifndef VFH_H_
#define VFH_H_
#include <cstdint>
#include <cstdio>
#include <cstdlib>
#include <cstring>
#include <cmath>
#include <string>
#include <vector>
#include <sstream>
#include <limits>

namespace vf {

struct Rng {
  uint64_t s[2];
  static uint64_t splitmix(uint64_t& x) {
    uint64_t z = (x += 0x9e3779b97f4a7c15ULL);
    z = (z ^ (z >> 30)) * 0xbf58476d1ce4e5b9ULL;
    z = (z ^ (z >> 27)) * 0x94d049bb133111ebULL;
    return z ^ (z >> 31);
  }
  Rng(uint64_t seed, uint64_t stream) {
    uint64_t x = seed * 0x9E3779B97F4A7C15ULL + stream * 0xD1B54A32D192ED03ULL + 12345;
    s[0] = splitmix(x); s[1] = splitmix(x);
    if (!s[0] && !s[1]) s[0] = 1;
  }
  uint64_t next() {  // xoroshiro128+
    uint64_t s0 = s[0], s1 = s[1], r = s0 + s1;
    s1 ^= s0;
    s[0] = ((s0 << 24) | (s0 >> 40)) ^ s1 ^ (s1 << 16);
    s[1] = (s1 << 37) | (s1 >> 27);
    return r;
  }
  // uniform in [0,n)
  uint64_t below(uint64_t n) { return n ? (next() >> 11) % n : 0; }
  int range(int lo, int hi) { return lo + (int)below((uint64_t)(hi - lo + 1)); }  // inclusive
  bool chance(int num, int den) { return (int)below(den) < num; }
  double unit() { return (next() >> 11) * (1.0 / 9007199254740992.0); }
  template <class T> const T& pick(const std::vector<T>& v) { return v[below(v.size())]; }
};

inline std::string jesc(const std::string& s) {
  std::string o;
  for (unsigned char c : s) {
    switch (c) {
      case '"': o += "\\\""; break;
      case '\\': o += "\\\\"; break;
      case '\n': o += "\\n"; break;
      case '\r': o += "\\r"; break;
      case '\t': o += "\\t"; break;
      default:
        if (c < 0x20 || c >= 0x7f) { char b[8]; snprintf(b, sizeof b, "\\u%04x", c); o += b; }
        else o += (char)c;
    }
  }
  return o;
}

inline std::string jnum(double d) {
  if (std::isnan(d)) return "\"nan\"";
  if (std::isinf(d)) return d > 0 ? "\"inf\"" : "\"-inf\"";
  char b[40]; snprintf(b, sizeof b, "%.17g", d); return b;
}

// Minimal JSON object writer: J j; j.s("k","v").i("n",3); puts(j.str())
struct J {
  std::string o = "{"; bool first = true;
  void key(const char* k) { if (!first) o += ","; first = false; o += "\""; o += k; o += "\":"; }
  J& s(const char* k, const std::string& v) { key(k); o += "\"" + jesc(v) + "\""; return *this; }
  J& i(const char* k, long long v) { key(k); o += std::to_string(v); return *this; }
  J& d(const char* k, double v) { key(k); o += jnum(v); return *this; }
  J& b(const char* k, bool v) { key(k); o += v ? "true" : "false"; return *this; }
  J& raw(const char* k, const std::string& v) { key(k); o += v; return *this; }
  std::string str() const { return o + "}"; }
};

struct Args {
  uint64_t seed = 0; long from = 0, to = 1; std::vector<std::string> rest;
  std::string get(const std::string& k, const std::string& def = "") const {
    for (size_t i = 0; i + 1 < rest.size(); ++i) if (rest[i] == k) return rest[i + 1];
    return def;
  }
  bool has(const std::string& k) const { for (auto& r : rest) if (r == k) return true; return false; }
};

inline Args parse_args(int argc, char** argv) {
  Args a;
  for (int i = 1; i < argc; ++i) {
    std::string s = argv[i];
    if (s == "--seed" && i + 1 < argc) a.seed = strtoull(argv[++i], 0, 10);
    else if (s == "--from" && i + 1 < argc) a.from = atol(argv[++i]);
    else if (s == "--to" && i + 1 < argc) a.to = atol(argv[++i]);
    else a.rest.push_back(s);
  }
  return a;
}

inline void begin_case(long n) { printf("#B %ld\n", n); fflush(stdout); }
inline void emit(const J& j) { puts(j.str().c_str()); fflush(stdout); }

// Adversarial pool of doubles used by several workloads.
inline double hostile_double(Rng& r, bool allow_nonfinite) {
  static const double pool[] = {
    0.0, -0.0, 1.0, -1.0, 0.1, -0.1, 0.3, 1.0/3, 2.0/3, 1e-5, 1e5, 123456789.0, 0.5, 0.25,
    4.9406564584124654e-324, -4.9406564584124654e-324, 2.2250738585072014e-308, -2.2250738585072014e-308,
    2.2250738585072009e-308, 1.7976931348623157e308, -1.7976931348623157e308,
    9007199254740992.0, 9007199254740993.0, -9007199254740991.0, 1e15, 1e16, 1e22, 1e23, 1e-7,
    0.1 + 0.2, 5e-324, 1e300, 1e-300, 3.141592653589793, 2.718281828459045, 1.0000000000000002,
    0.99999999999999989, 123456.78901234567, 1e21, 1e-10, 4.35, 0.000001, 8.5, 1e9, 2147483647.0, 2147483648.0,
    -2147483649.0, 4294967296.0, 1.2345678901234567e-200, 9.999999999999999e22};
  int k = (int)r.below(10);
  if (allow_nonfinite && k == 0) {
    int m = (int)r.below(3);
    return m == 0 ? std::numeric_limits<double>::infinity()
         : m == 1 ? -std::numeric_limits<double>::infinity()
                  : std::numeric_limits<double>::quiet_NaN();
  }
  if (k < 5) return pool[r.below(sizeof pool / sizeof *pool)];
  if (k < 7) { return (double)r.range(-1000, 1000); }
  if (k < 8) { return r.range(-100000, 100000) / 64.0; }
  // random bit pattern, finite
  for (;;) {
    uint64_t u = r.next(); double d; memcpy(&d, &u, 8);
    if (std::isfinite(d)) return d;
  }
}

}  // namespace vf
#endif
