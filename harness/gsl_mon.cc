// C16 monitor: every function amplgsl.cc registers through AmplExports::Addfunc, called with generated
// argument vectors; derivatives judged against Ridders extrapolation of the same binding's values.
#include "vfh.h"
#include "funcadd.h"
#include <map>
#include <set>
#include <unistd.h>
#include <signal.h>
static char g_current[600];
static void on_alarm(int) { const char* m = "VERIF-HANG "; (void)!write(2, m, strlen(m)); (void)!write(2, g_current, strlen(g_current)); (void)!write(2, "\n", 1); _exit(42); }

struct Reg { std::string name; rfunc f; int type; int nargs; void* info; };
static std::vector<Reg> g_funcs;
static RandSeedSetter g_seed_setter = nullptr; static void* g_seed_data = nullptr;
static std::vector<void*> g_temp;   // Tempmem blocks of the current call (exact-size heap blocks: ASan guards them)

static void my_addfunc(const char* name, rfunc f, int type, int nargs, void* info, AmplExports*) { g_funcs.push_back({name, f, type, nargs, info}); }
static void my_atreset(AmplExports*, Exitfunc, void*) {}
static void* my_tempmem(TMInfo*, size_t n) { void* p = malloc(n); g_temp.push_back(p); return p; }
static int my_snprintf(char* b, size_t n, const char* f, ...) { va_list a; va_start(a, f); int r = vsnprintf(b, n, f, a); va_end(a); return r; }
static int my_vsnprintf(char* b, size_t n, const char* f, va_list a) { return vsnprintf(b, n, f, a); }
static void my_addrandinit(AmplExports*, RandSeedSetter s, void* v) { g_seed_setter = s; g_seed_data = v; s(v, 1); }
static void free_temp() { for (void* p : g_temp) free(p); g_temp.clear(); }

static AmplExports g_ae;
static TMInfo g_tmi;

struct Call { double value = 0; std::vector<double> d, h; std::string err; bool has_err = false; };

static Call call(const Reg& r, const std::vector<double>& x, int mode, const std::vector<char>* dig) {
  Call c; int n = (int)x.size();
  std::vector<double> ra = x; c.d.assign(n, NAN); c.h.assign(n * (n + 1) / 2, NAN);
  // sentinel: a recognisable NaN payload so that "left unset" is distinguishable from a computed NaN is not needed: both are NaN
  arglist al; memset(&al, 0, sizeof al);
  al.n = n; al.nr = n; al.ra = ra.data(); al.derivs = mode >= 1 ? c.d.data() : nullptr; al.hes = mode >= 2 ? c.h.data() : nullptr;
  std::vector<char> digc; if (dig) { digc = *dig; al.dig = digc.data();
    // entries for arguments declared constant are not written by the bindings (and must not look "unset" to their NaN check)
    for (int i = 0; i < n; ++i) if (digc[i]) c.d[i] = 0;
    for (int i = 0; i < n; ++i) for (int j = i; j < n; ++j) if (digc[i] || digc[j]) c.h[i * (2 * n - i - 1) / 2 + j] = 0; }
  al.funcinfo = (Char*)r.info; al.AE = &g_ae; al.TMI = &g_tmi;
  { std::string d = r.name + "("; for (size_t i = 0; i < x.size(); ++i) d += (i ? ", " : "") + vf::jnum(x[i]); d += ") mode " + std::to_string(mode); snprintf(g_current, sizeof g_current, "%s", d.c_str()); }
  alarm(8); c.value = r.f(&al); alarm(0);
  if (al.Errmsg) { c.has_err = true; c.err = std::string(al.Errmsg).substr(0, 200); }
  free_temp();
  return c;
}

static bool same_bits(double a, double b) { return (std::isnan(a) && std::isnan(b)) || memcmp(&a, &b, 8) == 0 || a == b; }

// Ridders' method of polynomial extrapolation for d g / d t at t (Numerical Recipes "dfridr"); returns false if a sample fails
template <class G> static bool ridders(G g, double t, double h0, double& deriv, double& err) {
  const int NT = 8; const double CON = 1.4, CON2 = CON * CON, SAFE = 2.0; double a[NT][NT]; double hh = h0; double v1, v2;
  if (!g(t + hh, v1) || !g(t - hh, v2)) return false;
  a[0][0] = (v1 - v2) / (2 * hh); err = 1e300; deriv = a[0][0];
  for (int i = 1; i < NT; ++i) {
    hh /= CON; if (!g(t + hh, v1) || !g(t - hh, v2)) return false;
    a[0][i] = (v1 - v2) / (2 * hh); double fac = CON2;
    for (int j = 1; j <= i; ++j) {
      a[j][i] = (a[j - 1][i] * fac - a[j - 1][i - 1]) / (fac - 1); fac = CON2 * fac;
      double errt = std::max(std::fabs(a[j][i] - a[j - 1][i]), std::fabs(a[j][i] - a[j - 1][i - 1]));
      if (errt <= err) { err = errt; deriv = a[j][i]; }
    }
    if (std::fabs(a[i][i] - a[i - 1][i - 1]) >= SAFE * err) break;
  }
  return true;
}

static double pool_value(vf::Rng& r, int cls) {
  static const double regular[] = {0.5, 1, 1.5, 2, 2.5, 3, 0.1, 0.25, 0.75, 4, 7.5, 10, -0.5, -1, -1.5, -2.5, 0.3, 1.2, 0.9, 5, 0.05, 20};
  static const double ints[] = {0, 1, 2, 3, 4, 5, 10, -1, -2, -3, 7, 50, 100};
  static const double hostile[] = {0, -0.0, 1e-10, -1e-10, 1e-300, 1e10, -1e10, 1e300, -1e300, 2147483647.0, -2147483648.0, 2147483648.0, 4294967296.0, 1e19, 0.5, -0.5, 1.0000001, 0.9999999,
                                   NAN, INFINITY, -INFINITY, 1, -1, 709.8, -745.2, 1e-5, 170.5, 171.7};
  if (cls == 0) return regular[r.below(sizeof regular / sizeof *regular)] * (r.chance(1, 4) ? (1 + r.unit() * 0.2) : 1);
  if (cls == 1) return ints[r.below(sizeof ints / sizeof *ints)];
  return hostile[r.below(sizeof hostile / sizeof *hostile)];
}

int main(int argc, char** argv) {
  vf::Args A = vf::parse_args(argc, argv);
  g_ae.ASLdate = 20240320; g_ae.Addfunc = my_addfunc; g_ae.AtReset = my_atreset; g_ae.Tempmem = my_tempmem; g_ae.SnprintF = my_snprintf; g_ae.VsnprintF = my_vsnprintf; g_ae.Addrandinit = my_addrandinit;
  signal(SIGALRM, on_alarm);
  funcadd_ASL(&g_ae);
  if (A.has("--list")) { for (auto& f : g_funcs) printf("%s %d %d\n", f.name.c_str(), f.type, f.nargs); return 0; }
  int per_case = atoi(A.get("--vectors", "18").c_str());
  for (long cs = A.from; cs < A.to; ++cs) {
    vf::begin_case(cs);
    vf::Rng r(A.seed, (uint64_t)cs);
    const Reg& F = g_funcs[cs % g_funcs.size()];
    std::map<std::string, std::pair<long, std::string>> bad; long calls = 0, dchecks = 0, d2checks = 0, inconclusive = 0, errors_reported = 0, deriv_errors = 0, agree = 0;
    auto fail = [&](const std::string& k, const std::string& d) { auto& e = bad[k]; if (!e.first++) e.second = d; };
    auto at_point = [&](const std::vector<double>& x, int skip) { std::string o; for (size_t k = 0; k < x.size(); ++k) if ((int)k != skip && x[k] == std::floor(x[k])) o += "@x" + std::to_string(k) + "=" + vf::jnum(x[k]); if (!o.empty()) return o; std::string sg; for (double xv : x) sg += xv > 0 ? '+' : xv < 0 ? '-' : '0'; return std::string("@generic-point:signs=") + sg; };
    auto show = [&](const std::vector<double>& x) { std::string s = F.name + "("; for (size_t i = 0; i < x.size(); ++i) s += (i ? ", " : "") + vf::jnum(x[i]); return s + ")"; };
    if (F.type == FUNCADD_STRING_VALUED) {
      arglist al; memset(&al, 0, sizeof al); al.AE = &g_ae; al.TMI = &g_tmi; const char* s = ((const char* (*)(arglist*))F.f)(&al); ++calls;
      if (!s || !*s) fail("string-function-returned-nothing", F.name);
    } else for (int v = 0; v < per_case; ++v) {
      int n = F.nargs; std::vector<double> x(n);
      int style = (int)r.below(4); if (F.type == FUNCADD_RANDOM_VALUED && style >= 2 && !r.chance(1, 8)) style = (int)r.below(2);   // 0: all regular, 1: first arg integer-like, 2: mixed with one hostile, 3: all hostile
      if (v < 13) style = 1;      // systematic part: orders/indices 0,1,2,3 in the first argument (special-cased in many bindings); then
                                  // orders 1..3 with the second argument exactly -1, 0, 1 (closed forms at domain edges and zeros)
      for (int i = 0; i < n; ++i) { int cls = style == 0 ? 0 : style == 1 ? (i == 0 ? 1 : 0) : style == 2 ? ((int)r.below(n) == i ? 2 : (int)r.below(2)) : 2; x[i] = pool_value(r, cls); }
      if (v < 4 && n > 0) x[0] = v;
      else if (v < 13 && n > 1) { x[0] = 1 + (v - 4) % 3; x[1] = (double)((v - 4) / 3 - 1); }
      else if (style == 1 && r.chance(1, 2) && n > 1) { size_t k = r.below(n); x[k] = pool_value(r, 1); }
      bool random_valued = F.type == FUNCADD_RANDOM_VALUED;
      for (int mode = 0; mode < 3; ++mode) {
        std::vector<char> dig(n, 0); bool use_dig = n > 0 && r.chance(1, 3); if (use_dig) for (auto& d : dig) d = (char)r.below(2);
        if (v < 13 && n > 1) { use_dig = true; std::fill(dig.begin(), dig.end(), 0); dig[0] = 1; }   // the order is a constant (bindings refuse to differentiate it), the rest is differentiated
        if (random_valued && g_seed_setter) g_seed_setter(g_seed_data, 12345);
        Call c1 = call(F, x, mode, use_dig ? &dig : nullptr); ++calls;
        if (random_valued && g_seed_setter) g_seed_setter(g_seed_data, 12345);
        Call c2 = call(F, x, mode, use_dig ? &dig : nullptr); ++calls;
        // determinism
        bool det = same_bits(c1.value, c2.value) && c1.has_err == c2.has_err && c1.err == c2.err;
        if (!c1.has_err && mode >= 1) for (int i = 0; i < n; ++i) if (!same_bits(c1.d[i], c2.d[i])) det = false;
        if (!det) fail(std::string("nondeterministic") + (random_valued ? ":after-reseeding" : ""), show(x) + " mode " + std::to_string(mode));
        if (getenv("GSL_MON_DEBUG")) fprintf(stderr, "DBG %s mode %d dig %d v %d err=%s value=%g\n", show(x).c_str(), mode, (int)use_dig, v, c1.has_err ? c1.err.c_str() : "-", c1.value);
        if (c1.has_err) { ++errors_reported; if (c1.err[0] == '\'' || c1.err[0] == '"') ++deriv_errors; if (c1.err.size() <= 1) fail("empty-error-message", show(x)); continue; }
        // no error reported: nothing may be NaN
        if (std::isnan(c1.value)) { fail("NaN-value-without-error", show(x)); continue; }
        if (mode >= 1) for (int i = 0; i < n; ++i) if (!(use_dig && dig[i]) && std::isnan(c1.d[i])) { fail("NaN-derivative-without-error", show(x) + " d/d" + std::to_string(i)); break; }
        if (mode >= 2) for (int j = 0; j < n; ++j) for (int i = 0; i <= j; ++i) if (!(use_dig && (dig[i] || dig[j])) && std::isnan(c1.h[i * (2 * n - i - 1) / 2 + j])) { fail("NaN-second-derivative-without-error", show(x) + " d2/d" + std::to_string(i) + "d" + std::to_string(j)); j = n; break; }
        if (random_valued || style >= 2 || n == 0) continue;
        // ---- derivative agreement with numerical differentiation of the same binding (regular points only)
        bool finite_all = std::isfinite(c1.value) && std::fabs(c1.value) < 1e100; for (double xi : x) if (!std::isfinite(xi) || std::fabs(xi) > 1e3) finite_all = false;
        if (!finite_all || mode == 0) continue;
        for (int i = 0; i < n; ++i) {
          if (use_dig && dig[i]) continue;
          double edge_side = 0;      // set when the last disagreement was found by the one-sided rule at a domain edge
          auto check_at = [&](const std::vector<double>& xx, int order, int jcol, int& verdict) {
            // verdict: 1 agree, 0 disagree, -1 inconclusive; order 1: d f/dx_i ; order 2: d (df/dx_jcol) / dx_i
            Call cc = call(F, xx, order == 1 ? 1 : 2, use_dig ? &dig : nullptr); ++calls;
            if (cc.has_err) { verdict = -1; return; }
            int lo = std::min(i, jcol), hi = std::max(i, jcol), nn = (int)xx.size(); double analytic = order == 1 ? cc.d[i] : cc.h[lo * (2 * nn - lo - 1) / 2 + hi];   // upper triangle by rows, as test/gsl-test.cc indexes it
            edge_side = 0;
            double fmax = 0;      // largest sampled magnitude: differences of samples carry rounding noise of about eps*fmax
            auto g = [&](double t, double& out) { std::vector<double> y = xx; y[i] = t; Call q = call(F, y, order == 1 ? 0 : 1, use_dig ? &dig : nullptr); ++calls; if (q.has_err) return false; out = order == 1 ? q.value : q.d[jcol]; if (std::isfinite(out)) fmax = std::max(fmax, std::fabs(out)); return std::isfinite(out); };
            // three step scales: a singularity or a kink closer than the first step (e.g. legendre_Q1 at 1.0014) makes the extrapolation converge to
            // a wrong value with a small error estimate; a genuine derivative error disagrees at every scale
            if (!std::isfinite(analytic)) { verdict = -1; return; }
            int best = -1;
            for (double scale : {1.0, 1e-2, 1e-4}) {
              double num, err; double h0 = scale * 0.05 * std::max(0.1, std::fabs(xx[i]));
              fmax = 0;
              if (!ridders(g, xx[i], h0, num, err) || !std::isfinite(num)) continue;
              double s = std::max(std::fabs(analytic), std::fabs(num));
              // noise floor of the difference quotient (smallest step used is h0/1.4^7): when the derivative is far below it (e.g.
              // gamma_inc(50, 3) = 6e62 with d/dx = -1e22: all samples are the same double) numerical differentiation says nothing
              if (1e-14 * fmax / (h0 / 10.6) > 1e-4 * s) continue;
              if (err > 0.1 * std::max(s, 1e-8)) continue;
              if (std::fabs(analytic - num) <= 1e-3 * s + 1000 * err + 1e-8) { best = 1; break; }
              best = 0;
            }
            if (best == -1) {
              // domain edge (e.g. legendre_Pl at x = -1: x - h is outside): central differences at two interior points t+d, t+2d on the side
              // where the binding evaluates, extrapolated linearly to t; only decisive disagreements count (tolerance 2%)
              for (double side : {1.0, -1.0}) {
                double d = side * 1e-4 * std::max(1.0, std::fabs(xx[i])); double n1, e1, n2, e2; fmax = 0;
                if (!ridders(g, xx[i] + d, std::fabs(d) / 2, n1, e1) || !ridders(g, xx[i] + 2 * d, std::fabs(d) / 2, n2, e2) || !std::isfinite(n1) || !std::isfinite(n2)) continue;
                double ext = 2 * n1 - n2, s = std::max(std::fabs(analytic), std::fabs(ext));
                if (e1 + e2 > 1e-3 * std::max(s, 1e-8) || 1e-14 * fmax / (std::fabs(d) / 21) > 1e-4 * s) continue;
                if (std::fabs(n1 - n2) > 0.05 * std::max(std::fabs(n1), std::fabs(n2)) + 1e-8) continue;   // derivative varies too fast near the edge (pole, e.g. lnbeta(-2.5, -0.5)): not judged
                best = std::fabs(analytic - ext) <= 2e-2 * s + 1e-8 ? 1 : 0;
                if (best == 0) edge_side = side;
                break;
              }
            }
            verdict = best;
          };
          int v0; check_at(x, 1, 0, v0); ++dchecks;
          if (v0 == -1) ++inconclusive; else if (v0 == 1) ++agree;
          else { // reproduce at neighbouring points
            bool at_edge = edge_side != 0;
            std::vector<double> xa = x, xb = x; xa[i] *= 1 + 1e-3; xb[i] *= 1 - 1e-3; if (x[i] == 0) { xa[i] = 1e-3; xb[i] = -1e-3; }
            int va, vb; check_at(xa, 1, 0, va); check_at(xb, 1, 0, vb);
            if (at_edge) { int vc; check_at(x, 1, 0, vc); va = vc; vb = -1; }     // at an edge the neighbours are interior points (other rule): the edge verdict must repeat
            if ((va == 0) + (vb == 0) >= 1) { Call cc = call(F, x, 1, use_dig ? &dig : nullptr); fail("first-derivative-disagrees-with-numerical-differentiation:" + F.name + ":d/dx" + std::to_string(i) + at_point(x, i), show(x) + " d/dx" + std::to_string(i) + " analytic " + vf::jnum(cc.d[i])); }
            else ++inconclusive;
          }
          if (mode >= 2) for (int j = 0; j < n; ++j) {
            if (use_dig && dig[j]) continue;
            int w0; check_at(x, 2, j, w0); ++d2checks;
            if (w0 == -1) ++inconclusive; else if (w0 == 1) ++agree;
            else {
              std::vector<double> xa = x, xb = x; xa[i] *= 1 + 1e-3; xb[i] *= 1 - 1e-3; if (x[i] == 0) { xa[i] = 1e-3; xb[i] = -1e-3; }
              int wa, wb; check_at(xa, 2, j, wa); check_at(xb, 2, j, wb);
              if ((wa == 0) + (wb == 0) >= 1) fail("second-derivative-disagrees-with-numerical-differentiation:" + F.name + ":d2/dx" + std::to_string(i) + "dx" + std::to_string(j) + at_point(x, i), show(x) + " d2/dx" + std::to_string(i) + "dx" + std::to_string(j));
              else ++inconclusive;
            }
          }
        }
      }
    }
    // ---- an argument the binding treats as an integer (the value is a step function of it: bit-identical on [k, k+1) and different from one
    //      integer to the next, three times in a row) must be refused when it is not an integer, not silently truncated
    if (F.type != FUNCADD_STRING_VALUED && F.type != FUNCADD_RANDOM_VALUED && F.nargs >= 1) {
      for (int tries = 0; tries < 6; ++tries) {
        int n = F.nargs; std::vector<double> x(n); for (int i = 0; i < n; ++i) x[i] = pool_value(r, i == 0 || r.chance(1, 3) ? 1 : 0);
        for (int i = 0; i < n; ++i) if (x[i] == std::floor(x[i])) { if (x[i] < 0) x[i] = -x[i]; if (x[i] > 20) x[i] = (double)r.range(2, 9); }
        for (int i = 0; i < n; ++i) {
          double k0 = (double)r.range(1, 4); double vals[3][3]; bool ok = true;
          for (int a = 0; a < 3 && ok; ++a) for (int b = 0; b < 3 && ok; ++b) {
            std::vector<double> y = x; y[i] = k0 + a + (b == 0 ? 0.0 : b == 1 ? 0.3 : 0.7);
            Call q = call(F, y, 0, nullptr); ++calls;
            if (q.has_err || !std::isfinite(q.value)) ok = false; else vals[a][b] = q.value;
          }
          if (!ok) continue;
          bool plateau = true; for (int a = 0; a < 3; ++a) if (!same_bits(vals[a][0], vals[a][1]) || !same_bits(vals[a][0], vals[a][2])) plateau = false;
          if (plateau && vals[0][0] != vals[1][0] && vals[1][0] != vals[2][0] && vals[0][0] != vals[2][0]) {
            std::vector<double> y = x; y[i] = k0 + 0.7;
            fail("non-integer-silently-truncated-for-integer-valued-argument:" + F.name + ":x" + std::to_string(i), show(y) + " returns the value at x" + std::to_string(i) + "=" + vf::jnum(k0) + " without an error");
          }
        }
      }
    }
    vf::J j; j.i("case", cs).s("fn", F.name).i("nargs", F.nargs).i("type", F.type).i("calls", calls).i("dchecks", dchecks).i("d2checks", d2checks).i("agree", agree).i("inconclusive", inconclusive)
        .i("errors_reported", errors_reported).i("deriv_errors", deriv_errors);
    std::string cl = "{"; bool f1 = true;
    for (auto& kv : bad) { if (!f1) cl += ","; f1 = false; cl += "\"" + vf::jesc(kv.first) + "\":[" + std::to_string(kv.second.first) + ",\"" + vf::jesc(kv.second.second) + "\"]"; }
    j.raw("classes", cl + "}");
    vf::emit(j);
  }
  return 0;
}
