#!/bin/sh
# Repository's own baseline with the hook guard (MP_VERIF_HOOKS) OFF: the repo's normal build + ctest.
set -e
B=/repo/_build
[ -f $B/build.ninja ] || cmake -G Ninja -S /repo -B $B >/dev/null
cmake --build $B -j16 >/dev/null
ctest --test-dir $B -j8 --timeout 900 --output-junit $B/verif_baseline.junit.xml >/dev/null 2>&1 || true
python3 - "$B/verif_baseline.junit.xml" <<'PY'
import sys, json, xml.etree.ElementTree as ET
base = json.load(open('/root/.vp/BASELINE.json'))
want = set(base['stable_pass'])
t = ET.parse(sys.argv[1]).getroot()
passed = set()
for tc in t.iter('testcase'):
    name = tc.get('name')
    ok = tc.find('failure') is None and tc.find('error') is None and tc.get('status', 'run') in ('run', 'passed')
    if ok:
        passed.add(name + '::' + name)
# ctest only knows executables; run the gtest binaries for per-test results
import subprocess, os, re
for exe in sorted(os.listdir('/repo/_build/bin')):
    p = os.path.join('/repo/_build/bin', exe)
    if not exe.endswith('-test') or not os.access(p, os.X_OK):
        continue
    try:
        out = subprocess.run([p], capture_output=True, text=True, timeout=900, cwd='/repo/_build/test' if os.path.isdir('/repo/_build/test') else None).stdout
    except Exception:
        continue
    for m in re.finditer(r'^\[       OK \] (\S+?)\.(\S+)', out, re.M):
        passed.add(m.group(1) + '::' + m.group(2))
missing = sorted(want - passed)
print('baseline stable tests: %d, passing now: %d, missing: %d' % (len(want), len(want & passed), len(missing)))
for m in missing[:40]:
    print('  MISSING', m)
sys.exit(1 if missing else 0)
PY
