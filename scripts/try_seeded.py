#!/usr/bin/env python3
"""Apply a seeded change (/verif/seeded/<name>/patch.diff), run checks, undo the change.
Default (--inplace): the patch is applied to /repo itself and undone with `git checkout -- .` (nothing else may build from /repo meanwhile).
--scratch: the patch is applied to a fresh git worktree of /repo's HEAD under /tmp and the same checks are run against it
(VERIF_REPO=<worktree>, VERIF_BUILD=<private copy of /verif/.build>), so a trial neither touches /repo nor /verif/evidence and can run beside
other checks; worktree and private build root are removed afterwards.
usage: python3 scripts/try_seeded.py <name> [--scratch] [--tier quick|thorough] [--seed N] [--baseline] Cxx [Cyy ...]
Prints one line per check: caught (exit 1 with a VIOLATION line) / missed (exit 0) / inconclusive (exit 2) and appends the result to
/verif/seeded/<name>/results.jsonl.  --baseline also runs the repository's own tests with the change applied (must still pass)."""
import json, os, subprocess, sys, time

VERIF = os.path.dirname(os.path.dirname(os.path.abspath(__file__)))


def sh(cmd, **kw):
    return subprocess.run(cmd, shell=True, capture_output=True, text=True, **kw)


def main():
    a = sys.argv[1:]
    name = a.pop(0)
    tier, seed, baseline, scratch = 'quick', '1', False, False
    checks = []
    while a:
        t = a.pop(0)
        if t == '--tier':
            tier = a.pop(0)
        elif t == '--seed':
            seed = a.pop(0)
        elif t == '--baseline':
            baseline = True
        elif t == '--scratch':
            scratch = True
        elif t == '--inplace':
            scratch = False
        elif t == '--stop-on-caught':
            os.environ['TRY_STOP_ON_CAUGHT'] = '1'
        else:
            checks.append(t)
    d = os.path.join(VERIF, 'seeded', name)
    patch = os.path.join(d, 'patch.diff')
    if scratch:
        return run_scratch(name, d, patch, tier, seed, checks)
    st = sh('git -C /repo status --porcelain --untracked-files=no')
    if st.stdout.strip():
        print('refusing: /repo has local modifications:\n' + st.stdout); return 2
    r = sh('git -C /repo apply --whitespace=nowarn ' + patch)
    if r.returncode:
        print('patch does not apply: ' + r.stderr); return 2
    out = []
    try:
        if baseline:
            t0 = time.time()
            b = sh('sh %s/scripts/baseline_off.sh' % VERIF)
            line = (b.stdout.strip().split('\n') or [''])[0]
            ok = b.returncode == 0
            print('%-28s baseline tests: %s (%s) %.0fs' % (name, 'pass' if ok else 'FAIL', line, time.time() - t0))
            out.append(dict(kind='baseline', passed=ok, detail=b.stdout[-600:]))
        for c in checks:
            t0 = time.time()
            p = sh('%s/check %s --tier %s --seed %s' % (VERIF, c, tier, seed), cwd=VERIF)
            viol = [l for l in p.stdout.split('\n') if l.startswith('VIOLATION')]
            verdict = 'caught' if p.returncode == 1 and viol else 'missed' if p.returncode == 0 else 'inconclusive(%d)' % p.returncode
            keys = sorted(set(l.split('#', 1)[1].strip().split(': ')[0] for l in viol if '#' in l))
            print('%-28s %s %s seed %s: %s %s  %.0fs' % (name, c, tier, seed, verdict, keys[:4], time.time() - t0))
            out.append(dict(kind='check', check=c, tier=tier, seed=seed, verdict=verdict, keys=keys, tail=p.stdout[-400:] if verdict.startswith('inconcl') else ''))
    finally:
        sh('git -C /repo checkout -- .')
        st = sh('git -C /repo status --porcelain --untracked-files=no')
        if st.stdout.strip():
            print('WARNING: /repo not clean after undo:\n' + st.stdout)
    with open(os.path.join(d, 'results.jsonl'), 'a') as f:
        for o in out:
            f.write(json.dumps(o) + '\n')
    return 0


def run_scratch(name, d, patch, tier, seed, checks):
    import shutil
    wt = '/tmp/seedtry_' + name
    bd = os.path.join(VERIF, '.build', 'scratch', name)
    sh('git -C /repo worktree remove --force ' + wt); shutil.rmtree(bd, ignore_errors=True)
    r = sh('git -C /repo worktree add --detach %s HEAD' % wt)
    if r.returncode:
        print('cannot create worktree: ' + r.stderr); return 2
    out = []
    try:
        for f in ('src/expr-info.cc', 'nl-writer2/include/mp/nl-opcodes.h'):      # generated, git-ignored files of the pinned tree
            shutil.copy2(os.path.join('/repo', f), os.path.join(wt, f))
        r = sh('git -C %s apply --whitespace=nowarn %s' % (wt, patch))
        if r.returncode:
            print('patch does not apply: ' + r.stderr); return 2
        os.makedirs(bd)
        for v in ('asan', 'asanfull', 'plain', 'fuzz', 'tsan'):                  # start from the object cache (keys are content hashes)
            src = os.path.join(VERIF, '.build', v)
            if os.path.isdir(src):
                shutil.copytree(src, os.path.join(bd, v))
        env = dict(os.environ, VERIF_REPO=wt, VERIF_BUILD=bd)
        for c in checks:
            t0 = time.time()
            p = sh('%s/check %s --tier %s --seed %s' % (VERIF, c, tier, seed), cwd=VERIF, env=env)
            viol = [l for l in p.stdout.split('\n') if l.startswith('VIOLATION')]
            verdict = 'caught' if p.returncode == 1 and viol else 'missed' if p.returncode == 0 else 'inconclusive(%d)' % p.returncode
            keys = sorted(set(l.split('#', 1)[1].strip().split(': ')[0] for l in viol if '#' in l))
            print('%-28s %s %s seed %s: %s %s  %.0fs' % (name, c, tier, seed, verdict, keys[:4], time.time() - t0))
            out.append(dict(kind='check', check=c, tier=tier, seed=seed, verdict=verdict, keys=keys, mode='scratch-worktree', tail=(p.stdout + p.stderr)[-400:] if verdict.startswith('inconcl') else ''))
            if os.environ.get('TRY_STOP_ON_CAUGHT') and (verdict == 'caught' or verdict.startswith('inconcl')):
                break
    finally:
        sh('git -C /repo worktree remove --force ' + wt)
        shutil.rmtree(bd, ignore_errors=True)
    with open(os.path.join(d, 'results.jsonl'), 'a') as f:
        for o in out:
            f.write(json.dumps(o) + '\n')
    return 0


if __name__ == '__main__':
    sys.exit(main())
