#!/usr/bin/env python3
"""Automatic single-token mutants of the library (classic mutation operators), tried like the seeded changes of the sub-agents:
each mutant is a patch under /verif/seeded/auto_<n>/ and is run through `try_seeded.py --scratch` (scratch worktree, private build root).
A survivor is either an equivalent mutant, a change outside every statement, or a gap of the checks: survivors are looked at by hand.
usage: python3 scripts/automut.py <count> <seed> <checks,comma> <file> [<file> ...]"""
import json, os, random, re, subprocess, sys

VERIF = os.path.dirname(os.path.dirname(os.path.abspath(__file__)))
OPS = [(r' <= ', ' < '), (r' < ', ' <= '), (r' >= ', ' > '), (r' > ', ' >= '), (r' == ', ' != '), (r' != ', ' == '), (r' && ', ' || '), (r' \|\| ', ' && '),
       (r' \+ ', ' - '), (r' - ', ' + '), (r'\btrue\b', 'false'), (r'\bfalse\b', 'true'), (r'<=', '<'), (r'>=', '>'), (r'\b0\.0\b', '1.0'), (r'\b1\.0\b', '0.0'),
       (r'\+\+', '--'), (r'\+=', '-='), (r'-=', '+='), (r'\bstd::min\b', 'std::max'), (r'\bstd::max\b', 'std::min'), (r'\bfloor\b', 'ceil'), (r'\bceil\b', 'floor'),
       (r'\.lb\(\)', '.ub()'), (r'\.ub\(\)', '.lb()'), (r'\blb\(', 'ub('), (r'\bub\(', 'lb(')]
SKIP = re.compile(r'^\s*(//|/\*|\*|#|assert|MP_ASSERT|MP_RAISE|MP_INFEAS|template|using|typedef|namespace|class |struct |public:|protected:|private:|return "|"|\})|WriteJSON|Describe|GetTypeName|fmt::|printf|AddWarning|AddOption|"acc:|operator<<|for \(auto|static_assert')


def sh(cmd, **kw):
    return subprocess.run(cmd, shell=True, capture_output=True, text=True, **kw)


def main():
    count, seed, checks = int(sys.argv[1]), int(sys.argv[2]), sys.argv[3].split(',')
    files = sys.argv[4:]
    rng = random.Random(seed)
    existing = [d for d in os.listdir(os.path.join(VERIF, 'seeded')) if d.startswith('auto_')]
    nxt = 1 + max([int(d.split('_')[1]) for d in existing] + [0])
    made = 0
    tries = 0
    while made < count and tries < count * 50:
        tries += 1
        f = rng.choice(files)
        src = open(os.path.join('/repo', f)).read().split('\n')
        cand = [i for i, l in enumerate(src) if not SKIP.search(l) and l.strip() and '//' not in l.split(';')[0][:3]]
        if not cand:
            continue
        i = rng.choice(cand)
        line = src[i]
        code = line.split('//')[0]
        ops = [(a, b) for a, b in OPS if re.search(a, code)]
        if not ops:
            continue
        a, b = rng.choice(ops)
        ms = list(re.finditer(a, code))
        m = rng.choice(ms)
        new = code[:m.start()] + b + code[m.end():] + line[len(code):]
        if new == line:
            continue
        name = 'auto_%03d' % nxt
        wt = '/tmp/automut_wt'
        sh('git -C /repo worktree remove --force ' + wt)
        if sh('git -C /repo worktree add --detach %s HEAD' % wt).returncode:
            print('cannot create worktree'); return 2
        try:
            p = os.path.join(wt, f)
            L = open(p).read().split('\n'); L[i] = new
            open(p, 'w').write('\n'.join(L))
            diff = sh('git -C %s diff' % wt).stdout
        finally:
            sh('git -C /repo worktree remove --force ' + wt)
        d = os.path.join(VERIF, 'seeded', name)
        os.makedirs(d)
        open(os.path.join(d, 'patch.diff'), 'w').write(diff)
        json.dump(dict(property=checks[0], files=[f], summary='automatic mutant, %s line %d: %r -> %r in %r' % (f, i + 1, m.group(0), b, line.strip()[:120]),
                       author='scripts/automut.py (mutation operator, not a sub-agent); survivors are analysed in DESIGN.md'), open(os.path.join(d, 'meta.json'), 'w'), indent=1)
        nxt += 1; made += 1
        r = sh('python3-vt %s/scripts/try_seeded.py %s --scratch --stop-on-caught %s' % (VERIF, name, ' '.join(checks)), cwd=VERIF)
        verdicts = [l for l in r.stdout.split('\n') if name in l]
        caught = [l.split()[1] for l in verdicts if ': caught' in l]
        incon = [l for l in verdicts if 'inconclusive' in l]
        print('%s %s:%d %r->%r | %s | %s' % (name, f, i + 1, m.group(0), b, 'CAUGHT by ' + ','.join(caught) if caught else ('BUILD/HARNESS FAILURE' if len(incon) == len(verdicts) and verdicts else 'SURVIVED'), line.strip()[:110]), flush=True)
    return 0


if __name__ == '__main__':
    sys.exit(main())
