#!/usr/bin/env python3
"""Rewrite section 12 of DESIGN.md from /verif/seeded/*/{meta.json,results.jsonl}."""
import json, os, glob, re

VERIF = os.path.dirname(os.path.dirname(os.path.abspath(__file__)))
rows = []
for d in sorted(glob.glob(os.path.join(VERIF, 'seeded', '*'))):
    name = os.path.basename(d)
    try:
        meta = json.load(open(os.path.join(d, 'meta.json')))
    except Exception:
        meta = {}
    res = []
    p = os.path.join(d, 'results.jsonl')
    if os.path.exists(p):
        res = [json.loads(l) for l in open(p) if l.strip()]
    last = {}
    base = None
    for r in res:
        if r['kind'] == 'check':
            last[r['check']] = r          # the latest trial of each check counts
        elif r['kind'] == 'baseline':
            base = r['passed']
    files = ', '.join(os.path.basename(f) for f in meta.get('files', []))[:60]
    caught = [c for c, r in last.items() if r['verdict'] == 'caught']
    missed = [c for c, r in last.items() if r['verdict'] == 'missed']
    hist = {}
    for r in res:
        if r['kind'] == 'check':
            hist.setdefault(r['check'], []).append(r['verdict'])
    first_missed = [c for c, h in hist.items() if h and h[0] == 'missed' and h[-1] == 'caught']
    keys = sorted(set(k.split(':', 1)[1] for c in caught for k in last[c]['keys']))[:2]
    rows.append('| %s | %s | %s | %s | %s | %s | %s |' % (
        name, meta.get('property', name[:3]), files, (meta.get('summary', '') or '').replace('|', '/')[:170],
        ' '.join(caught) or '-', ' '.join(missed) or '-',
        ('; '.join(keys))[:110] + ((' (missed at first by %s, check strengthened)' % ' '.join(first_missed)) if first_missed else '')
        + ((' ' if keys else '') + 'ANALYSIS: ' + meta['analysis'] if meta.get('analysis') else '')))
txt = ['## 12. Seeded changes: which checks catch which\n',
       'Each change below was written by an independent sub-agent that received only the text of one property and a private worktree of the library '
       '(nothing from /verif), together with a demonstration; I confirmed each by applying `seeded/<name>/patch.diff` to /repo, running the checks '
       '(`scripts/try_seeded.py`, quick tier, seed 1 unless noted in `results.jsonl`) and undoing it.  None is committed to /repo.  "caught" = the check '
       'exits 1 with a VIOLATION line; the last column gives the first violation keys.  A change that was missed at first led to a stronger check '
       '(noted); the trial history is in `seeded/<name>/results.jsonl`.  Rows `auto_NNN` are automatic single-token mutants (`scripts/automut.py`: relational, arithmetic, '
       'boolean, constant and lb/ub swaps on random code lines of the anchored files), tried the same way with the checks of the file\'s properties; every survivor '
       'was looked at by hand and its row carries the ANALYSIS (equivalent, outside the statements, or the gap it exposed and how it was closed).  Rows `*_self_*` '
       'were written by me to probe one mechanism.\n',
       '| name | property | file | change | caught by | not caught by (also tried) | first keys |', '|---|---|---|---|---|---|---|'] + rows + ['']
s = open(os.path.join(VERIF, 'DESIGN.md')).read()
if '## 12. Seeded changes' in s:
    s = s[:s.index('## 12. Seeded changes')]
s = s.rstrip('\n') + '\n\n' + '\n'.join(txt) + '\n'
open(os.path.join(VERIF, 'DESIGN.md'), 'w').write(s)
print('%d seeded changes tabulated' % len(rows))
