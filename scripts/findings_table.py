#!/usr/bin/env python3
"""Rewrite sections 11.1 and 11.2 of DESIGN.md (repaired defects, known findings) from /repo's git log and known_findings.jsonl."""
import json, os, re, subprocess
VERIF = os.path.dirname(os.path.dirname(os.path.abspath(__file__)))
subj, order = {}, []
for l in subprocess.run(['git', '-C', '/repo', 'log', '--reverse', '--format=%h %s', '78df8a2..HEAD'], capture_output=True, text=True).stdout.strip().split('\n'):
    h, s = l.split(' ', 1); subj[h] = s; order.append(h)
prop, known = {}, []
for l in open(os.path.join(VERIF, 'known_findings.jsonl')):
    d = json.loads(l)
    if d['status'] == 'fixed':
        for h in re.findall(r'\b[0-9a-f]{7}\b', d.get('commit', '')):
            prop.setdefault(h, set()).add(d['property'])
    else:
        known.append(d)
nfix = sum(1 for h in order if subj[h].startswith('fix:'))
miss = [h for h in order if subj[h].startswith('fix:') and h not in prop]
out = ['### 11.1 Genuine defects repaired in /repo (%d minimal unguarded "fix:" commits, each recorded as `fixed` in known_findings.jsonl)\n' % nfix,
       '| commit | found by | what failed |', '|---|---|---|']
for h in order:
    if subj[h].startswith('fix:'):
        out.append('| %s | %s | %s |' % (h, ' '.join(sorted(prop.get(h, ['?']))), subj[h][5:].replace('|', '\\|')))
out += ['', '### 11.2 Known findings (genuine, not repaired; the checks print KNOWN-FINDING and exit 0)\n']
for d in known:
    out.append('* **%s** `%s` - %s\n' % (d['property'], d.get('key') or d.get('key_regex'), d['what']))
s = open(os.path.join(VERIF, 'DESIGN.md')).read()
a = s.index('### 11.1 '); b = s.index('### 11.3 ')
s = s[:a] + '\n'.join(out) + '\n' + s[b:]
open(os.path.join(VERIF, 'DESIGN.md'), 'w').write(s)
print('%d fix commits, %d known findings; fix commits without an entry: %s' % (nfix, len(known), miss))
