#!/bin/sh
# Run every check once in the given tier with the given seed; print one summary line per check; exit 1 if any check did.
# usage: sh scripts/run_all.sh <tier> <seed> [Cxx ...]
tier=${1:-quick}; seed=${2:-1}; shift; shift
checks="$*"
[ -n "$checks" ] || checks="C01 C02 C03 C04 C05 C06 C07 C08 C09 C10 C11 C12 C13 C14 C15 C16 C17 C18 C19 C20"
rc=0
cd "$(dirname "$0")/.."
for c in $checks; do
  out=$(./check $c --tier $tier --seed $seed 2>&1); r=$?
  echo "$out" | grep "^VIOLATION\|^INCONCLUSIVE\|^\[$c\]" | cut -c1-400
  [ $r -eq 0 ] || { rc=1; echo "  -> $c exit $r"; }
done
exit $rc
