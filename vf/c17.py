"""C17: SafeInt<T> is exact or raises overflow (reference: __int128)."""
import json
from . import build, run

RULE = ("operand pairs of mp::SafeInt<T> +,-,* the converting constructor and the mixed-type operators (SafeInt<T1> op T2, T2 op SafeInt<T1>, 10x10 type pairs) judged against exact __int128 arithmetic; "
        "8-bit T: all pairs (quick+thorough), 16-bit T: all pairs (thorough, plain build) and a 1/16 slice (quick); int/long/"
        "long long/unsigned/size_t: boundary set squared + seeded random pairs biased to the overflow edge; ctor: all 10x10 "
        "(source,target) integer type pairs over the boundary set. A case = one (type, op, chunk); non-trivial = it contained "
        "both representable and overflowing pairs; distinct = distinct (mode,type,op) signatures")


def builds():
    return dict(full=build.build('asanfull', 'safeint_mon', ['safeint_mon.cc'], lib=False),
                plain=build.build('plain', 'safeint_mon', ['safeint_mon.cc'], lib=False))


def prebuild():
    builds()


def main(tier, seed):
    ctx = run.Ctx('C17', tier, seed)
    b = builds()
    exe_full, exe_plain = b['full'], b['plain']
    totals = dict(pairs=0, ok=0, overflow=0)

    def on_line(mode):
        def f(j):
            totals['pairs'] += j['n']; totals['ok'] += j['ok']; totals['overflow'] += j['ovf']
            sig = mode + ':' + ' '.join(j['desc'].split(' ')[:-1])
            ctx.count(sig, nontrivial=(j['ok'] > 0 and j['ovf'] > 0))
            if j['ok'] > 0 and j['ovf'] > 0:
                ctx.sample(dict(mode=mode, case=j['desc'], pairs=j['n'], exact=j['ok'], raised=j['ovf']))
            for cls, (cnt, ex) in j.get('classes', {}).items():
                ctx.violation(cls, ex, dict(mode=mode, case=j['case'], desc=j['desc'], count=cnt, example=ex,
                                            cmd='safeint_mon --mode %s --seed %d --from %d --to %d' % (mode, seed, j['case'], j['case'] + 1)))
        return f

    def on_death(mode):
        def f(case, d, cmd):
            kind, top, exc = d
            if kind == 'harness-failure':
                ctx.inconcl('harness failure in %s: %s' % (mode, exc[-300:]))
                return
            ctx.violation('%s:%s' % (kind, top), 'sanitizer/abort during SafeInt case %s/%d: %s' % (mode, case, kind),
                          dict(cmd=cmd, report=exc))
        return f

    # UB-monitored builds (ASan + full UBSan incl. signed-integer-overflow)
    run.run_sharded(exe_full, ['--mode', 'enum8'], 96, on_line('enum8'), on_death('enum8'), seed)
    run.run_sharded(exe_full, ['--mode', 'ctor'], 100, on_line('ctor'), on_death('ctor'), seed)
    run.run_sharded(exe_full, ['--mode', 'mixed'], 100, on_line('mixed'), on_death('mixed'), seed)
    run.run_sharded(exe_full, ['--mode', 'wide'], 15 * ctx.n(3, 12), on_line('wide'), on_death('wide'), seed)
    exhaustive16 = False
    if ctx.quick:
        # seed-chosen slice of the 16-bit space: 96 of the 6*4096 (type, op, 16-value a-chunk) cases, ~1M pairs each
        picks = sorted(set(ctx.rng.sample(range(6 * 4096), 96)))
        run.pmap(lambda c: run.run_sharded(exe_plain, ['--mode', 'enum16', '--chunks', '4096'], 1, on_line('enum16'),
                                           on_death('enum16'), seed, shards=1, first=c), picks)
    else:
        run.run_sharded(exe_plain, ['--mode', 'enum16'], 1536, on_line('enum16'), on_death('enum16'), seed, timeout_per_case=120)
        # UBSan-monitored slice of the 16-bit space
        picks = sorted(set(ctx.rng.sample(range(1536), 48)))
        run.pmap(lambda c: run.run_sharded(exe_full, ['--mode', 'enum16'], 1, on_line('enum16'), on_death('enum16'), seed, shards=1, first=c, timeout_per_case=600), picks)
        exhaustive16 = True
    ctx.extras.update(operand_pairs=totals['pairs'], exact_results=totals['ok'], overflow_raised=totals['overflow'],
                      exhaustive_8bit=True, exhaustive_16bit=exhaustive16,
                      sanitizers='ASan+UBSan(undefined,float-cast-overflow) on enum8/ctor/wide' + ('' if ctx.quick else ' and a 48-chunk slice of enum16'))
    ctx.assumptions += ['__int128 arithmetic of gcc is the reference', 'unsigned and signed instantiations are both in scope (the statement names size_t)']
    return ctx.finish(RULE, floor=20, exhaustive=False)


def replay(path):
    w = json.load(open(path))
    print(json.dumps(w, indent=1))
    return 0
