"""Tiny hand-written NL models (text format) used by checks that need a fixed model."""

# min x0 + 2*x1 + 3*x2  s.t.  x0 + x1 + x2 >= 1 ; x0 - x1 <= 2 (range -inf..2) ; all in [0,10]
LP3 = """g3 1 1 0\t# problem lp3
 3 2 1 0 0\t# vars, constraints, objectives, ranges, eqns
 0 0\t# nonlinear constraints, objectives
 0 0\t# network constraints: nonlinear, linear
 0 0 0\t# nonlinear vars in constraints, objectives, both
 0 0 0 1\t# linear network variables; functions; arith, flags
 0 0 0 0 0\t# discrete variables: binary, integer, nonlinear (b,c,o)
 5 3\t# nonzeros in Jacobian, gradients
 0 0\t# max name lengths: constraints, variables
 0 0 0 0 0\t# common exprs: b,c,o,c1,o1
C0
n0
C1
n0
O0 0
n0
r
2 1
1 2
b
0 0 10
0 0 10
0 0 10
k2
2
4
J0 3
0 1
1 1
2 1
J1 2
0 1
1 -1
G0 3
0 1
1 2
2 3
"""
