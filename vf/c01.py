"""C01: the model delivered to the solver API is equivalent to the NL model (projection onto the original variables, objective, diagnosed refusal)."""
import os, random, math
from fractions import Fraction as Fr
from . import mpmon, run, solfile, gen_nl, flat_eval, flat_z3

RULE = ("seeded random NL models of the exact fragment (2..4 bounded variables on the 1/4 grid / integers / binaries; affine and quadratic algebra, "
        "abs, min, max, comparisons, and/or/not/iff/implies, forall/exists, if-then-else, count, numberof, alldiff, atleast-family, piecewise-linear "
        "terms, division by constants, defined variables) x acceptance configurations {all native, linear rows only, linear + indicators, linear + "
        "quadratic, random subset with levels 0/1/2} x conversion options {cvt:pre:all, cvt:pre:eqresult, cvt:pre:eqbinary, cvt:pre:unnest, "
        "cvt:quadcon, cvt:quadobj, cvt:sos, cvt:sos2, cvt:mip:eps, cvt:bigM, cvt:uenc:ratio, cvt:uenc:negctx:max, cvt:socp, cvt:socp2qc, acc:* through the option path}; second-order-cone shaped rows (plain and rotated, recognised or not); for every test point of the original-variable grid the NL model is evaluated exactly "
        "(Fractions) and the recorded delivered model is decided by z3 with the original variables fixed (functional constraints as equalities): "
        "sat <=> NL-feasible; at feasible points the NL objective value is attainable and cannot be improved over the auxiliary variables; every "
        "sat witness is re-validated by the oracle's own evaluator; a refusal must carry a message and a 2xx/5xx code, a 2xx only if no test point "
        "is feasible; non-trivial = a nonlinear/logical operator present, both feasible and infeasible points decided; distinct = (acceptance, "
        "options, operator set)")

SIMPLE = ('LinConLE', 'LinConEQ', 'LinConGE')
POOL = ['LinConRange', 'QuadConLE', 'QuadConRange', 'QuadConEQ', 'QuadConGE', 'IndicatorConstraintLinLE', 'IndicatorConstraintLinGE', 'IndicatorConstraintLinEQ',
        'MaxConstraint', 'MinConstraint', 'AbsConstraint', 'AndConstraint', 'OrConstraint', 'NotConstraint', 'PLConstraint', 'SOS1Constraint', 'SOS2Constraint',
        'CountConstraint', 'IfThenConstraint', 'ImplicationConstraint', 'DivConstraint', 'LinearFunctionalConstraint', 'QuadraticFunctionalConstraint',
        'CondLinConLE', 'CondLinConLT', 'CondLinConEQ', 'CondLinConGE', 'CondLinConGT', 'NumberofConstConstraint', 'NumberofVarConstraint', 'AllDiffConstraint', 'PowConstraint']
CFGNAMES = ['all-native', 'linear-only', 'linear+indicators', 'linear+quadratic', 'random']


def prebuild():
    mpmon.exe()


def has_nan(o):
    if isinstance(o, dict):
        return any(has_nan(v) for v in o.values())
    if isinstance(o, (list, tuple)):
        return any(has_nan(v) for v in o)
    return o == 'nan' or (isinstance(o, float) and o != o)


def pick_acc(rng, which):
    lin = {t: 2 for t in SIMPLE}
    if which == 0:
        return {'*': 2}
    if which == 1:
        return dict({'*': 0}, **lin)
    if which == 2:
        return dict({'*': 0, 'IndicatorConstraintLinLE': 2, 'IndicatorConstraintLinGE': 2, 'IndicatorConstraintLinEQ': 2, 'LinConRange': rng.choice([0, 2])}, **lin)
    if which == 3:
        return dict({'*': 0, 'QuadConLE': 2, 'QuadConEQ': 2, 'QuadConGE': 2, 'QuadConRange': rng.choice([0, 2]), 'LinConRange': rng.choice([0, 2])}, **lin)
    acc = dict({'*': rng.choice([0, 0, 2])}, **lin)
    for t in rng.sample(POOL, rng.randrange(2, 14)):
        acc[t] = rng.choice([0, 1, 2, 2])
    return acc


ACCOPTS = ['linrange', 'indle', 'indge', 'indeq', 'max', 'min', 'abs', 'and', 'or', 'not', 'pl', 'sos2', 'count', 'ifthen', 'impl', 'div',
           'quadle', 'quadge', 'quadeq', 'quadrange', 'numberofconst', 'numberofvar', 'quadcone', 'rotatedquadcone', 'condlinlt', 'pow']


def pick_opts(rng, has_cone=False):
    o = []
    if rng.random() < 0.15:
        o.append('cvt:pre:all=0')
    if rng.random() < 0.12:
        o.append('cvt:pre:eqresult=0')
    if rng.random() < 0.12:
        o.append('cvt:pre:eqbinary=0')
    if rng.random() < 0.12:
        o.append('cvt:pre:unnest=0')
    if rng.random() < 0.12:
        o.append('cvt:quadcon=%d' % rng.choice([0, 1, 2]))
    if rng.random() < 0.12:
        o.append('cvt:quadobj=%d' % rng.choice([0, 1, 2]))
    if rng.random() < 0.1:
        o.append('cvt:sos2=%d' % rng.choice([0, 1]))
    if rng.random() < 0.1:
        o.append('cvt:mip:eps=%s' % rng.choice(['1e-3', '1e-5', '5e-4']))       # below the 1/512 guard on strict comparisons
    if rng.random() < 0.06:
        o.append('cvt:bigM=%s' % rng.choice(['1e4', '1e5']))                      # variables are bounded: a default big-M must not matter
    if rng.random() < 0.1:
        o.append('cvt:uenc:ratio=%s' % rng.choice(['0', '0.5', '1', '3']))
    if rng.random() < 0.1:
        o.append('cvt:uenc:negctx:max=%d' % rng.choice([0, 1, 2, 5]))
    if rng.random() < 0.06:
        o.append('cvt:sos=0')                                                     # the SOS suffixes are then not part of the model
    if has_cone and rng.random() < 0.4 or rng.random() < 0.04:
        o.append('cvt:socp=%d' % rng.choice([0, 1, 2]))
    if has_cone and rng.random() < 0.3 or rng.random() < 0.03:
        o.append('cvt:socp2qc=%d' % rng.choice([0, 1, 2]))
    if rng.random() < 0.1:                                                        # acceptance changed through the real option path
        for n in rng.sample(ACCOPTS, rng.randrange(1, 3)):
            o.append('acc:%s=%d' % (n, rng.choice([0, 1, 2])))
    return o


def main(tier, seed):
    ctx = run.Ctx('C01', tier, seed)
    exe = mpmon.exe()
    wd = ctx.workdir()
    ncases = ctx.n(2500, 60000)
    ptcap = ctx.n(90, 400)

    def one(k):
        rng = random.Random('%d/%d' % (seed, k))
        m = gen_nl.G(rng, dict(nobjs=(0, 1), ncons=(1, 3), nlcons=(0, 2), nvars=(2, 4), depth=rng.choice([1, 2, 2, 3]), ndv=(0, 1), compl=True, sos=True, cone=0.12)).model()
        has_cone = m.cons and m.cons[-1].get('cone', False)
        if rng.random() < 0.8:
            gen_nl.make_feasible_at(m, rng)
        ops = sorted(gen_nl.model_ops(m))
        nv = len(m.vars)
        # ---- NL side, once per model
        pts = gen_nl.grid_points(m, rng, cap=ptcap)
        nlres = []
        for p in pts:
            m.mingap = math.inf
            try:
                ev = m.evaluate(p)
            except ArithmeticError:
                continue
            if m.mingap < Fr(1, 512):
                continue            # a strict comparison decided by less than the converter's epsilon: not judged
            nlres.append((p, ev['feasible'], ev['objs'][0] if m.objs else None, all(t[0] in ('sos1', 'sos2') for t in ev['violated'])))
        out = []
        nl = m.to_nl()
        cfgs = [0, 1, rng.choice([2, 3, 4]), 4][:ctx_ncfg]
        for pos, which in enumerate(cfgs):
            acc = pick_acc(rng, which)
            opts = pick_opts(rng, has_cone)
            nosos = 'cvt:sos=0' in opts
            flags = {'quadobj': rng.choice([0, 1])}
            info = dict(cfg=CFGNAMES[which], opts=opts, ops=ops, decided=0, feas=0, infeas=0, unknown=0, refused=False, approx=False, unsupported='', types=[])
            res = []
            r = mpmon.run_case(exe, wd, 'e%d_%d_%d' % (k, pos, which), nl, opts=opts + ['wantsol=1'], acc=acc, flags=flags, timeout=120)
            tr = flat_eval.Trace(r['trace'])
            death = run.classify_death(r)
            txt = (r['out'] + r['err']).decode('utf-8', 'replace')
            sol = None
            if r['sol'] is not None:
                try:
                    sol = solfile.parse(r['sol'])
                except solfile.SolError as ex:
                    res.append(('sol-file-malformed', str(ex)))
            msg = (sol['message'] if sol else '') + txt
            if death and death[0] not in ('exit:1', 'exit:255'):
                res.append(('%s:%s' % (death[0], death[1]), 'driver died: ' + death[2][-300:]))
                out.append((k, res, info)); continue
            if 'approximated' in msg:
                info['approx'] = True           # delivered an approximation by design (announced): equivalence not claimed
                out.append((k, res, info)); continue
            if not tr.finished:
                info['refused'] = True
                code = sol['code'] if sol else None
                if sol is None and r['rc'] == 0:
                    res.append(('refusal-without-diagnostic', 'no model delivered, exit 0, no .sol; output %r' % txt[-200:]))
                elif sol is not None:
                    if not sol['message'].strip():
                        res.append(('refusal-without-message', 'code %s' % code))
                    if code is not None and 200 <= code < 300:
                        fp = [p for p, f, _, f0 in nlres if (f0 if nosos else f)]
                        if fp:
                            res.append(('model-declared-infeasible-but-has-feasible-point', 'solve_result %d (%s) but x=%s satisfies the NL model' % (code, sol['message'][:120], [str(t) for t in fp[0]])))
                    elif code is not None and code < 200:
                        res.append(('refusal-with-success-code', 'code %s message %s' % (code, sol['message'][:120])))
                out.append((k, res, info)); continue
            info['types'] = sorted(set(c['type'] for c in tr.cons))
            if has_nan([tr.lb, tr.ub, [c['data'] for c in tr.cons], tr.objs]):
                res.append(('delivered-model-contains-NaN', 'a bound, coefficient or parameter of the delivered model is NaN (config %s %s)' % (CFGNAMES[which], opts)))
                out.append((k, res, info)); continue
            try:
                enc = flat_z3.Enc(tr)
            except flat_z3.Unsupported as ex:
                info['unsupported'] = str(ex)
                out.append((k, res, info)); continue
            sense = m.objs[0]['sense'] if m.objs else 0
            have_obj = bool(m.objs) and bool(tr.objs)
            for p, feas, ov, feas0 in nlres:
                if nosos:
                    feas = feas0
                enc.at(p)
                a = enc.check()
                if a == 'unknown':
                    info['unknown'] += 1; enc.done(); continue
                info['decided'] += 1
                info['feas' if feas else 'infeas'] += 1
                if a == 'sat':
                    w = enc.witness()
                    bad = flat_z3.validate(tr, w)
                    if bad:
                        res.append(('oracle-self-check-failed', 'z3 witness rejected by the evaluator: %s' % bad[:4]))
                        enc.done(); break
                if (a == 'sat') != feas:
                    key = 'delivered-model-admits-an-infeasible-point' if a == 'sat' else 'delivered-model-excludes-a-feasible-point'
                    # attribution: bounds of a complementarity variable narrowed by the converter (the condition is then read with other bounds,
                    # natively or in the linearisation, which uses the current bounds as well)?  Only if the NL model with its complementarity
                    # conditions read with the *delivered* bounds of those variables agrees with the delivered model at this point
                    nb = {j: (flat_eval.fr(tr.lb[j]), flat_eval.fr(tr.ub[j])) for j, _ in m.compl.values()
                          if flat_eval.num(tr.lb[j]) != float(m.vars[j]['lb']) or flat_eval.num(tr.ub[j]) != float(m.vars[j]['ub'])}
                    if nb:
                        ev0 = m.evaluate(p)
                        v2 = [t for t in ev0['violated'] if t[0] != 'compl' and not (nosos and t[0] in ('sos1', 'sos2'))]
                        for ci, (cj, fl) in m.compl.items():
                            lo2, hi2 = nb.get(cj, (m.vars[cj]['lb'], m.vars[cj]['ub']))
                            lo2 = -math.inf if isinstance(lo2, float) and lo2 < 0 else lo2; hi2 = math.inf if isinstance(hi2, float) and hi2 > 0 else hi2
                            if not gen_nl.compl_ok(ev0['bodies'][ci], p[cj], lo2, hi2, fl):
                                v2.append(('compl', ci))
                        if (not v2) == (a == 'sat'):
                            key = 'complementarity-variable-bounds-narrowed:' + key
                    viol = [] if feas else [t[0] for t in m.evaluate(p)['violated'] if not (nosos and t[0] in ('sos1', 'sos2'))][:3]
                    res.append((key, 'x=%s: NL model %s%s, delivered model %s (config %s %s, delivered types %s)' % ([str(t) for t in p], 'feasible' if feas else 'infeasible', (' ' + str(viol)) if viol else '', a, CFGNAMES[which], opts, info['types'])))
                    enc.done(); break
                if feas and have_obj and ov is not None:
                    o = enc.objs[0]
                    val = flat_z3.z3.Q(ov.numerator, ov.denominator)
                    dl = Fr(1, 10 ** 6) * max(1, abs(ov)); dlt = flat_z3.z3.Q(dl.numerator, dl.denominator)     # rows hold within 1e-9, objective judged to 1e-6
                    a1 = enc.check(o >= val - dlt, o <= val + dlt)
                    a2 = enc.check(o < val - dlt if sense == 0 else o > val + dlt)
                    if a1 == 'unsat':
                        res.append(('objective-value-not-attainable', 'x=%s: NL objective %s cannot be attained by the delivered objective (config %s %s)' % ([str(t) for t in p], ov, CFGNAMES[which], opts)))
                        enc.done(); break
                    if a2 == 'sat':
                        res.append(('delivered-objective-can-be-better-than-NL-objective', 'x=%s: NL objective %s (sense %d) but auxiliary values give a better delivered objective (config %s %s)' % ([str(t) for t in p], ov, sense, CFGNAMES[which], opts)))
                        enc.done(); break
                    if tr.objs[0]['sense'] != sense:
                        res.append(('objective-sense-differs', '%s vs %s' % (tr.objs[0]['sense'], sense)))
                        enc.done(); break
                enc.done()
            out.append((k, res, info))
        for pos, ((kk, res, info), which) in enumerate(zip(out, cfgs)):       # keep the files of violating runs only
            if not res:
                for ext in ('.nl', '.sol', '.trace'):
                    try:
                        os.unlink(os.path.join(wd, 'e%d_%d_%d%s' % (k, pos, which, ext)))
                    except OSError:
                        pass
        return out

    ctx_ncfg = 4 if tier == 'thorough' else 3
    for lst in run.pmap_proc(one, range(ncases), chunk=1):
        for k, res, info in lst:
            nt = info['feas'] and info['infeas'] and any(op not in ('+', '-', 'neg', 'sum') for op in info['ops'])
            ctx.count('%s|%s|%s' % (info['cfg'], ','.join(info['opts']), ','.join(info['ops'])[:60]), nontrivial=bool(nt))
            ctx.bump('points_decided', info['decided'])
            ctx.bump('points_nl_feasible', info['feas'])
            ctx.bump('points_nl_infeasible', info['infeas'])
            ctx.bump('points_z3_unknown', info['unknown'])
            ctx.bump('runs_refused_with_diagnostic', 1 if info['refused'] else 0)
            ctx.bump('runs_with_announced_approximation', 1 if info['approx'] else 0)
            ctx.bump('runs_with_type_not_encodable', 1 if info['unsupported'] else 0)
            ctx.bump('runs_' + info['cfg'], 1)
            ctx.bump('runs_delivering_a_cone', 1 if any('Cone' in t for t in info['types']) else 0)
            for o in info['opts']:
                ctx.bump('runs_with_option_' + o.split('=')[0].split(':', 1)[0] + ':' + (o.split('=')[0].split(':', 1)[1] if not o.startswith('acc:') else '*'), 1)
            for t in info['types']:
                ctx.addset('delivered_types_seen', t)
            if info['decided'] >= 40 and info['feas'] >= 5 and info['infeas'] >= 5:
                ctx.sample(dict(case=k, config=info['cfg'], options=info['opts'], operators=info['ops'][:10], points=info['decided'], feasible=info['feas'], delivered_types=info['types'][:10]), cap=6)
            seen = set()
            for key, text in res:
                if key in seen:
                    continue
                seen.add(key)
                ctx.violation(key, '%s (case %d)' % (text[:700], k), dict(case=k, seed=seed, info=info))
    ctx.assumptions += ['functional constraints accepted natively are read as equalities result = f(arguments)',
                        'delivered static rows (linear/quadratic/indicator bodies) are satisfied within 1e-9 relative to their right-hand side: big-M rows use the non-dyadic epsilon 1e-4 and hold only up to double rounding',
                        'z3 is the trusted decision procedure for unsat answers; every sat answer is re-validated by the oracle evaluator',
                        'points where a comparison is decided by a gap below 1/512 are not judged (the converter shifts strict comparisons by cvt:mip:eps=1e-4)',
                        'runs in which the converter announces a piecewise-linear approximation are counted, not judged']
    return ctx.finish(RULE, floor=30)


def replay(path):
    print(open(path).read()); return 0
