"""C13: piecewise-linear approximations stay within the requested tolerance."""
import math, os, random
from fractions import Fraction as Fr
from . import build, run

RULE = ("mp::PLApproximate<Con> (the routine the converter calls) for all 17 function types x parameters (bases 0.1..50, exponents -9..9 incl. "
        "fractional) x argument intervals (generic, tiny, huge, straddling 0, clipped by the function's domain, integer endpoints, "
        "non-float-representable endpoints, around period boundaries) x result ranges x tolerances 1e-1..1e-6 x integer/continuous argument; "
        "oracle: breakpoints strictly increasing, first/last breakpoint = reported domain (remainder range when periodic), per-segment "
        "maximum of |f-pl| (relative where |f|>1) by 49-point sampling + golden-section refinement against long-double libm, periodic "
        "reduction checked at 5 period factors, integer shortcut exact; non-trivial = a PL with >=3 breakpoints was produced; "
        "distinct = distinct (function, parameter, shape, tolerance, integer, periodic) signatures; second stage through the converter: 'y = f(x)' "
        "with f not accepted and PLConstraint accepted, the delivered model (period remainder/factor variables, linking row, PL constraint) "
        "decided by z3 at sampled arguments incl. period boundaries: some y exists and every admitted y is within reltol of f(x)")


def builds():
    return dict(asan=build.build('asan', 'plapprox_mon', ['plapprox_mon.cc']))


def prebuild():
    builds()
    from . import mpmon
    mpmon.exe()


def main(tier, seed):
    ctx = run.Ctx('C13', tier, seed)
    exe = builds()['asan']
    per_fn, outcomes = {}, {}

    def on_line(j):
        ctx.count('%s|%s|%s|%g|%d|%d' % (j['fn'], j['prm'], j['shape'], j['tol'], j['isint'], j['periodic']), nontrivial=j['outcome'] == 'pl' and j['npts'] >= 3)
        per_fn[j['fn']] = per_fn.get(j['fn'], 0) + 1
        outcomes[j['outcome']] = outcomes.get(j['outcome'], 0) + 1
        ctx.bump('breakpoints_checked', j['npts'])
        if j['int_shortcut']:
            ctx.bump('integer_shortcut_cases')
        if j['periodic']:
            ctx.bump('periodic_cases')
        w = j['worst_over_tol']
        if isinstance(w, (int, float)):
            ctx.extras['max_error_over_tolerance_seen'] = max(ctx.extras.get('max_error_over_tolerance_seen', 0.0), w if w <= 1.000001 else 0.0)
        if j['outcome'] == 'pl' and j['npts'] >= 5 and not j['bad']:
            ctx.sample(dict(case=j['case'], function=j['fn'], parameter=j['prm'], interval=[j['lbx'], j['ubx']], tol=j['tol'], integer=j['isint'],
                            breakpoints=j['npts'], periodic=j['periodic'], max_error_over_tol=j['worst_over_tol']), cap=5)
        for b in j['bad']:
            ctx.violation(b, '%s (case %d: %s prm=%s [%s,%s] tol=%g int=%s; %s)' % (b, j['case'], j['fn'], j['prm'], j['lbx'], j['ubx'], j['tol'], j['isint'], j['detail']),
                          dict(case=j['case'], record=j, cmd=[exe, '--seed', str(seed), '--from', str(j['case']), '--to', str(j['case'] + 1)]))

    def on_death(case, d, cmd):
        kind, top, exc = d
        if kind == 'harness-failure':
            ctx.inconcl('harness failure: ' + exc[-300:]); return
        if kind == 'oom':
            ctx.bump('allocation_limit_aborts'); return True
        ctx.violation('%s:%s' % (kind, top), 'PLApproximate died/hung on case %d: %s in %s' % (case, kind, top), dict(cmd=cmd, report=exc))

    run.run_sharded(exe, [], ctx.n(20000, 1000000), on_line, on_death, seed, timeout_per_case=30, shards=16)
    converter_stage(ctx, seed)
    ctx.extras.update(cases_per_function=per_fn, outcomes=outcomes, sanitizers='ASan + UBSan(bounds,...) + _GLIBCXX_ASSERTIONS')
    ctx.assumptions += ['long-double libm is the reference for the true function', 'mp::Error thrown by the approximator is a refusal (counted)',
                        'errors up to tol*(1+1e-6) are accepted; first/last breakpoint may differ from the reported domain by 1e-9 relative']
    return ctx.finish(RULE, floor=100)


CONV_FUNCS = {'sin': (-40, 40), 'cos': (-40, 40), 'exp': (-6, 6), 'log': (0.05, 60), 'tanh': (-6, 6), 'atan': (-30, 30), 'sinh': (-4, 4), 'cosh': (-4, 4),
              'asinh': (-30, 30), 'sqrt': (0, 60)}


def converter_stage(ctx, seed):
    """End to end through the converter: 'y = f(x)' with f not accepted natively and PLConstraint accepted; the delivered model (remainder and
    period-factor variables, linking row, PL constraint) is decided by z3 at sampled arguments: some y must exist and every admitted y must be
    within the requested relative tolerance of f(x).  This is what uses the approximation: a correct PL on the wrong argument is caught here only."""
    from . import mpmon, gen_nl, flat_eval, flat_z3
    exe = mpmon.exe()
    wd = ctx.workdir()
    ncases = ctx.n(240, 6000)

    def one(k):
        rng = random.Random('conv/%d/%d' % (seed, k))
        fn = rng.choice(['sin', 'cos', 'sin', 'cos'] + sorted(CONV_FUNCS))
        lo, hi = CONV_FUNCS[fn]
        a = Fr(rng.randint(int(lo * 8), int(hi * 8) - 4), 8)
        if fn in ('log',) and a <= 0:
            a = Fr(1, 16)
        w = Fr(rng.choice([rng.randint(2, 24), rng.randint(24, 400)]), 8)
        b = min(a + w, Fr(hi))
        if b <= a:
            b = a + Fr(1, 2)
        isint = rng.random() < 0.15
        if isint:
            a, b = Fr(math.ceil(a)), Fr(math.floor(b))
            if b <= a:
                b = a + 2
        m = gen_nl.Model()
        m.vars = [dict(lb=a, ub=b, type='c'), dict(lb=Fr(-10 ** 6), ub=Fr(10 ** 6), type='c')]
        if isint:
            m.vars = [dict(lb=Fr(-10 ** 6), ub=Fr(10 ** 6), type='c'), dict(lb=a, ub=b, type='i')]
        xi, yi = (1, 0) if isint else (0, 1)
        m.cons = [dict(expr=(fn, ('v', xi)), lin={yi: Fr(-1)}, lb=Fr(0), ub=Fr(0))]
        m.objs = [dict(sense=0, expr=None, lin={yi: Fr(1)})]
        tol = rng.choice([None, None, 0.05, 0.002])
        opts = ['cvt:plapprox:reltol=%g' % tol] if tol else []
        rtol = tol or 0.01
        acc = {'*': 0, 'LinConLE': 2, 'LinConEQ': 2, 'LinConGE': 2, 'LinConRange': 2, 'PLConstraint': 2}
        r = mpmon.run_case(exe, wd, 'p%d' % k, m.to_nl(), opts=opts, acc=acc, timeout=120)
        res = []
        info = dict(fn=fn, lo=float(a), hi=float(b), tol=rtol, isint=isint, points=0, periodic=False, delivered=False)
        death = run.classify_death(r)
        if death and death[0] not in ('exit:1', 'exit:255'):
            res.append(('converter-path:%s:%s' % (death[0], death[1]), 'driver died: ' + death[2][-300:]))
            return k, res, info
        tr = flat_eval.Trace(r['trace'])
        if not tr.finished or not any(c['type'] == 'PLConstraint' for c in tr.cons):
            return k, res, info                      # refused or not approximated: nothing to judge here
        info['delivered'] = True
        info['periodic'] = tr.nvars > 3
        try:
            enc = flat_z3.Enc(tr, timeout_ms=20000)
        except flat_z3.Unsupported as ex:
            info['unsupported'] = str(ex); return k, res, info
        period = 2 * math.pi
        xs = [a, b, (a + b) / 2] + [a + (b - a) * Fr(rng.randint(0, 1 << 20), 1 << 20) for _ in range(6)]
        if fn in ('sin', 'cos'):
            for kk in range(math.ceil(float(a) / period), math.floor(float(b) / period) + 1):      # around period boundaries
                for d in (-1e-3, 0.0, 1e-3):
                    t = Fr(kk * period + d)
                    if a <= t <= b:
                        xs.append(t)
            xs = xs[:24]
        if isint:
            xs = sorted(set(Fr(round(x)) for x in xs if a <= round(x) <= b))
        z3 = flat_z3.z3
        for x in xs:
            fx = gen_nl.smooth(fn, x)
            ffx = Fr(fx)
            t = Fr(rtol) * max(1, abs(ffx)) * Fr(1000001, 1000000) + Fr(1, 10 ** 9)
            enc.s.push()
            enc.s.add(enc.v[xi] == z3.Q(x.numerator, x.denominator))
            a1 = enc.check()
            if a1 == 'unsat':
                res.append(('converter-path:argument-value-excluded-by-the-delivered-model:%s' % fn, '%s(x) on [%s, %s], x=%s: no y at all' % (fn, float(a), float(b), float(x))))
                enc.s.pop(); break
            y = enc.v[yi]
            hi_ = ffx + t; lo_ = ffx - t
            a2 = enc.check(z3.Or(y > z3.Q(hi_.numerator, hi_.denominator), y < z3.Q(lo_.numerator, lo_.denominator)))
            if a1 == 'sat' and a2 != 'unknown':
                info['points'] += 1
            if a2 == 'sat':
                yv = enc.s.model().eval(enc.raw[yi], model_completion=True)
                res.append(('converter-path:error-exceeds-tolerance:%s' % fn, '%s(x) on [%s, %s] reltol %g%s: at x=%.17g the delivered model admits y=%s, f(x)=%.17g' % (fn, float(a), float(b), rtol, ' integer x' if isint else '', float(x), yv, fx)))
                enc.s.pop(); break
            enc.s.pop()
        if not res:
            for ext in ('.nl', '.sol', '.trace'):
                try:
                    os.unlink(r['base'] + ext)
                except OSError:
                    pass
        return k, res, info

    for k, res, info in run.pmap_proc(one, range(ncases), chunk=2):
        ctx.count('conv|%s|%g|%d|%d' % (info['fn'], info['tol'], info['isint'], info['periodic']), nontrivial=info['points'] >= 3)
        ctx.bump('converter_path_models', 1)
        ctx.bump('converter_path_models_with_delivered_pl', 1 if info['delivered'] else 0)
        ctx.bump('converter_path_periodic_decompositions', 1 if info['periodic'] else 0)
        ctx.bump('converter_path_points_decided', info['points'])
        for key, text in res:
            ctx.violation(key, '%s (converter case %d)' % (text, k), dict(case=k, seed=seed, info=info))


def replay(path):
    builds()
    return run.generic_replay(path)
