"""C13: piecewise-linear approximations stay within the requested tolerance."""
from . import build, run

RULE = ("mp::PLApproximate<Con> (the routine the converter calls) for all 17 function types x parameters (bases 0.1..50, exponents -9..9 incl. "
        "fractional) x argument intervals (generic, tiny, huge, straddling 0, clipped by the function's domain, integer endpoints, "
        "non-float-representable endpoints, around period boundaries) x result ranges x tolerances 1e-1..1e-6 x integer/continuous argument; "
        "oracle: breakpoints strictly increasing, first/last breakpoint = reported domain (remainder range when periodic), per-segment "
        "maximum of |f-pl| (relative where |f|>1) by 49-point sampling + golden-section refinement against long-double libm, periodic "
        "reduction checked at 5 period factors, integer shortcut exact; non-trivial = a PL with >=3 breakpoints was produced; "
        "distinct = distinct (function, parameter, shape, tolerance, integer, periodic) signatures")


def builds():
    return dict(asan=build.build('asan', 'plapprox_mon', ['plapprox_mon.cc']))


def prebuild():
    builds()


def main(tier, seed):
    ctx = run.Ctx('C13', tier, seed)
    exe = builds()['asan']
    per_fn, outcomes = {}, {}

    def on_line(j):
        ctx.count('%s|%s|%s|%g|%d|%d' % (j['fn'], j['prm'], j['shape'], j['tol'], j['isint'], j['periodic']), nontrivial=j['outcome'] == 'pl' and j['npts'] >= 3)
        per_fn[j['fn']] = per_fn.get(j['fn'], 0) + 1
        outcomes[j['outcome']] = outcomes.get(j['outcome'], 0) + 1
        ctx.bump('breakpoints_checked', j['npts'])
        if j['int_shortcut']:
            ctx.bump('integer_shortcut_cases')
        if j['periodic']:
            ctx.bump('periodic_cases')
        w = j['worst_over_tol']
        if isinstance(w, (int, float)):
            ctx.extras['max_error_over_tolerance_seen'] = max(ctx.extras.get('max_error_over_tolerance_seen', 0.0), w if w <= 1.000001 else 0.0)
        if j['outcome'] == 'pl' and j['npts'] >= 5 and not j['bad']:
            ctx.sample(dict(case=j['case'], function=j['fn'], parameter=j['prm'], interval=[j['lbx'], j['ubx']], tol=j['tol'], integer=j['isint'],
                            breakpoints=j['npts'], periodic=j['periodic'], max_error_over_tol=j['worst_over_tol']), cap=5)
        for b in j['bad']:
            ctx.violation(b, '%s (case %d: %s prm=%s [%s,%s] tol=%g int=%s; %s)' % (b, j['case'], j['fn'], j['prm'], j['lbx'], j['ubx'], j['tol'], j['isint'], j['detail']),
                          dict(case=j['case'], record=j, cmd=[exe, '--seed', str(seed), '--from', str(j['case']), '--to', str(j['case'] + 1)]))

    def on_death(case, d, cmd):
        kind, top, exc = d
        if kind == 'harness-failure':
            ctx.inconcl('harness failure: ' + exc[-300:]); return
        if kind == 'oom':
            ctx.bump('allocation_limit_aborts'); return
        ctx.violation('%s:%s' % (kind, top), 'PLApproximate died/hung on case %d: %s in %s' % (case, kind, top), dict(cmd=cmd, report=exc))

    run.run_sharded(exe, [], ctx.n(20000, 1000000), on_line, on_death, seed, timeout_per_case=30, shards=16)
    ctx.extras.update(cases_per_function=per_fn, outcomes=outcomes, sanitizers='ASan + UBSan(bounds,...) + _GLIBCXX_ASSERTIONS')
    ctx.assumptions += ['long-double libm is the reference for the true function', 'mp::Error thrown by the approximator is a refusal (counted)',
                        'errors up to tol*(1+1e-6) are accepted; first/last breakpoint may differ from the reported domain by 1e-9 relative']
    return ctx.finish(RULE, floor=100)


def replay(path):
    builds()
    return run.generic_replay(path)
