"""C07: the automatic solution check reports a violation iff the candidate point violates the original model."""
import os, random, math
from fractions import Fraction as Fr
from . import mpmon, run, solfile, gen_nl, flat_eval

RULE = ("seeded random NL models of the exact fragment, every flat constraint accepted natively (so each auxiliary variable has a defining "
        "expression); per model up to 14 candidate points of the original variables on the 1/4 grid: feasible ones, points violating one or more "
        "algebraic/logical constraints, points off a variable bound by 1/4..1, integer variables at k+1/2, and points exactly on / just beyond an "
        "absolute tolerance of 1/4; the oracle evaluates the NL model exactly (Fractions) and completes each point with the true values of all "
        "auxiliary variables (forward evaluation of the delivered functional constraints) and the true objective value; the real "
        "PostsolveSolution -> solution check path is driven with these points under sol:chk:mode in {default, 3, 31, 96, 99, 1023, 0} and must "
        "report iff the oracle says violated; a separate process per model checks sol:chk:fail (solve_result 150 iff violated); non-trivial = "
        "model with a nonlinear/logical operator and both verdicts seen; distinct = (mode, tolerance config, operator set)")

MODES = [None, None, 3, 31, 96, 99, 1023, 1 + 2 + 32 + 64]


def prebuild():
    mpmon.exe()


def exact_float(v):
    if isinstance(v, float):
        return v
    f = float(v)
    return f if Fr(f) == v else None


def amounts(m, p, ev):
    """violation amounts of the original model at p: (max bound viol, max alg viol, logical false?, max integrality distance)"""
    vb = Fr(0); va = Fr(0); vi = Fr(0)
    for j, v in enumerate(m.vars):
        vb = max(vb, v['lb'] - p[j] if v['lb'] != -math.inf else Fr(0), p[j] - v['ub'] if v['ub'] != math.inf else Fr(0))
        if v['type'] != 'c':
            vi = max(vi, abs(p[j] - round(p[j])))
    for c, b in zip(m.cons, ev['bodies']):
        if c['lb'] != -math.inf:
            va = max(va, c['lb'] - b)
        if c['ub'] != math.inf:
            va = max(va, b - c['ub'])
    lf = any(t[0] == 'logcon' for t in ev['violated'])
    return vb, va, lf, vi


def main(tier, seed):
    ctx = run.Ctx('C07', tier, seed)
    exe = mpmon.exe()
    wd = ctx.workdir()
    ncases = ctx.n(4000, 80000)

    def one(k):
        rng = random.Random('%d/%d' % (seed, k))
        m = gen_nl.G(rng, dict(nobjs=(0, 1), ncons=(1, 3), nlcons=(0, 2), nvars=(2, 4), depth=2, ndv=(0, 1), compl=False, sos=True, cone=0.1)).model()
        p0 = gen_nl.make_feasible_at(m, rng) if rng.random() < 0.8 else None
        ops = sorted(gen_nl.model_ops(m))
        info = dict(ops=ops, mode=None, tol=None, judged=0, rep=0, clean=0, failrun=None)
        res = []
        nl = m.to_nl()
        r = mpmon.run_case(exe, wd, 's%d' % k, nl, opts=[], acc={'*': 2}, timeout=120)
        tr = flat_eval.Trace(r['trace'])
        death = run.classify_death(r)
        if death and death[0] not in ('exit:1', 'exit:255'):
            res.append(('%s:%s' % (death[0], death[1]), 'driver died: ' + death[2][-300:]))
        if not tr.finished or res:
            return k, res, info
        info['cone'] = any('Cone' in c['type'] for c in tr.cons)
        nv = len(m.vars)
        haslogic = bool(m.lcons) or any(o in ops for o in ('if', 'count', 'numberof', 'lt', 'le', 'eq', 'ge', 'gt', 'ne', 'and', 'or', 'not', 'iff', 'implies', 'forall', 'exists', 'alldiff', '!alldiff', 'atleast', 'atmost', 'exactly', '!atleast', '!atmost', '!exactly'))
        # ---- candidate points
        tolcfg = None
        has_cone = bool(m.cons) and m.cons[-1].get('cone', False)     # a recognised cone is checked as sqrt(sum) - p0*x0: other amounts than the quadratic row
        if rng.random() < 0.3 and 'numberof' not in ops and 'alldiff' not in ops and '!alldiff' not in ops and not has_cone and not m.suffixes:
            tolcfg = (Fr(1, 4), 0)
        base = gen_nl.grid_points(m, rng, cap=120)
        rng.shuffle(base)
        if p0 is not None:
            base = [p0] + [[p0[j] if rng.random() < 0.7 else q[j] for j in range(nv)] for q in base[:30]] + base
        cands = []
        feas, infeas = [], []
        for p in base:
            try:
                ev = m.evaluate(p)
            except ZeroDivisionError:
                continue
            (feas if ev['feasible'] else infeas).append(p)
        infeas.sort(key=lambda p: len(m.evaluate(p)['violated']))
        cands += feas[:4] + infeas[:3] + infeas[-1:]
        seedpts = (feas[:2] + infeas[:1]) or base[:1]
        for p in seedpts:
            j = rng.randrange(nv); v = m.vars[j]
            q = list(p)
            d = Fr(rng.choice([1, 2, 4]), 4) if v['type'] == 'c' else Fr(1)
            if rng.random() < 0.5 and v['ub'] != math.inf:
                q[j] = v['ub'] + d
            elif v['lb'] != -math.inf:
                q[j] = v['lb'] - d
            cands.append(q)
            ints = [j for j, v in enumerate(m.vars) if v['type'] != 'c']
            if ints:
                q = list(p); j = rng.choice(ints); q[j] = q[j] + Fr(1, 2); cands.append(q)
        if tolcfg:
            for p in feas[:2]:
                for dd in (Fr(1, 4), Fr(1, 2)):
                    cj = [j for j, v in enumerate(m.vars) if v['type'] == 'c' and v['ub'] != math.inf]
                    if cj:
                        q = list(p); j = rng.choice(cj); q[j] = m.vars[j]['ub'] + dd; cands.append(q)
        pts = []
        for p in cands[:14]:
            try:
                ev = m.evaluate(p)
            except ZeroDivisionError:
                continue
            x, errs = flat_eval.forward(tr, p)
            if errs or any(v is None for v in x):
                continue
            xf = [exact_float(v) for v in x]
            if any(v is None for v in xf):
                continue
            ov = []
            for o in tr.objs:
                val = flat_eval.obj_value(o, x)
                ov.append(exact_float(val) if val is not None else None)
            if any(v is None for v in ov):
                continue
            vb, va, lf, vi = amounts(m, p, ev)
            # a completed point that leaves the delivered bounds/integrality of an auxiliary variable: the delivered model itself excludes the
            # point (C01/C06 territory); the check rightly reports it, so such points are not judged here
            auxbad = any(xf[j] < tr.lb[j] or xf[j] > tr.ub[j] or (tr.type[j] == 1 and xf[j] != round(xf[j])) for j in range(nv, tr.nvars))
            if auxbad and ev['feasible']:
                info['auxbad'] = info.get('auxbad', 0) + 1
                continue
            if not ev['feasible'] and not auxbad:
                # the NL model is violated: is the delivered model (independent semantics, exact) violated too?  If not, the conversion lost
                # a constraint (C01 territory) and the check cannot be expected to see it
                sts = [flat_eval.static_holds(c, x) for c in tr.static()]
                orig_ok = all(tr.lb[j] <= xf[j] <= tr.ub[j] and (tr.type[j] != 1 or xf[j] == round(xf[j])) for j in range(nv))
                if orig_ok and all(t is True for t in sts):
                    info['relaxed'] = info.get('relaxed', 0) + 1
                    continue
            if tolcfg:
                T = tolcfg[0]
                violated = vb > T or va > T or lf or vi > Fr(1, 100000)
                margin_ok = all(a <= T or a >= T + Fr(1, 256) for a in (vb, va))
                if 0 < vb <= T and (lf or haslogic or any(o not in ('v', 'n') for o in ops)):
                    margin_ok = False     # a logical constraint evaluated outside the variable domain may have been simplified using that domain
                # logical results and counts are not tolerance-aware: keep only points whose logical structure is unaffected
            else:
                violated = not ev['feasible']
                margin_ok = True
            if not margin_ok:
                continue
            pts.append(dict(p=p, x=xf, ov=ov, violated=bool(violated), tags=ev['violated'][:4], grey=bool(tolcfg) and not violated and not ev['feasible']))
        if not pts:
            return k, res, info
        mode = rng.choice(MODES)
        if rng.random() < 0.08:
            mode = 0
        opts = []
        if mode is not None:
            opts.append('sol:chk:mode=%d' % mode)
        if tolcfg:
            opts += ['sol:chk:feastol=0.25', 'sol:chk:feastolrel=0']
        if rng.random() < 0.2:
            opts.append('sol:chk:round=6')
        info['mode'], info['tol'] = mode, bool(tolcfg)
        S = ['status 0 scripted', 'checkpoints %d' % len(pts)]
        for i, q in enumerate(pts):
            S.append('pt%d ' % i + ' '.join(repr(v) for v in q['x']))
            if q['ov']:
                S.append('objvals%d ' % i + ' '.join(repr(v) for v in q['ov']))
        S.append('x ' + ' '.join(repr(v) for v in pts[0]['x']))
        if pts[0]['ov']:
            S.append('objvals ' + ' '.join(repr(v) for v in pts[0]['ov']))
        r2 = mpmon.run_case(exe, wd, 's%dc' % k, nl, opts=opts, acc={'*': 2}, script='\n'.join(S) + '\n', timeout=120)
        death = run.classify_death(r2)
        if death and death[0] not in ('exit:1', 'exit:255'):
            res.append(('%s:%s' % (death[0], death[1]), 'driver died in the solution check: ' + death[2][-300:]))
            return k, res, info
        evs = {e['k']: e for e in r2['trace'] if e.get('ev') == 'solcheck'}
        for i, q in enumerate(pts):
            e = evs.get(i)
            if e is None:
                res.append(('checkpoint-not-evaluated', 'point %d' % i)); continue
            if e['aborted'] or e['err']:
                res.append(('solution-check-aborted', 'point %s: %s' % ([str(t) for t in q['p']], (e['aborted'] or e['err'])[:300]))); continue
            reported = bool(e['w0'] or e['w1'])
            lines = [l for l in (e['w0'] + '\n' + e['w1']).split('\n') if l.startswith((' ', '*')) and 'Using the solver' not in l]
            if q['grey']:
                # within tolerance but not exact: inferred bounds of auxiliary variables (and, in recomputed mode, the expressions carrying them)
                # are not scaled with the tolerance, so only the lines about original items are judged
                direct = [l for l in lines if any(t in l for t in ('  variable bounds', '* variable bounds', 'variable integrality', 'algebraic con(s)', 'quadratic con(s)', 'objective(s)')) and 'aux var' not in l]
                reported = bool(direct)
                info['grey'] = info.get('grey', 0) + 1
            info['judged'] += 1
            info['rep' if q['violated'] else 'clean'] += 1
            want = q['violated'] and mode != 0
            if reported != want:
                key = 'violation-not-reported' if want else 'false-violation-reported'
                tagk = '+'.join(sorted(set(t[0] for t in q['tags']))) if want else ''
                if want:
                    key += ':' + tagk + (':recomputed-values-only-mode' if mode is not None and not (mode & 31) else '')
                else:
                    first = (e['w1'] or e['w0']).split('\n')
                    kinds = sorted(set(l.strip('* ').split('  ')[0].strip() for l in first[1:] if l.startswith((' ', '*')) and 'Using the solver' not in l))
                    key += ':' + '+'.join(x.split("'")[1] if "'" in x else x.replace(' ', '-') for x in kinds)[:80]
                res.append((key, 'x=%s (violated per NL model: %s %s) mode=%s tol=%s: check says %s' % ([str(t) for t in q['p']], q['violated'], q['tags'], mode, tolcfg, (e['w1'] or e['w0'] or 'nothing')[:500])))
        # ---- sol:chk:fail end to end on one point
        q = rng.choice([t for t in pts if not t['grey']] or pts)
        if q['grey']:
            return k, res, info
        # the solver's own status: the final solution is checked for every status except "infeasible" (200-299), where it is checked only
        # with sol:chk:infeas; "unbounded/limit with a feasible solution" are checked like "solved"
        st = rng.choice([0, 0, 0, 100, 300, 320, 349, 400, 420, 200, 250, 299])
        chk_infeas = 200 <= st < 300 and rng.random() < 0.5
        checked = not (200 <= st < 300) or chk_infeas
        S = ['status %d scripted' % st, 'x ' + ' '.join(repr(v) for v in q['x'])]
        if q['ov']:
            S.append('objvals ' + ' '.join(repr(v) for v in q['ov']))
        fopts = [o for o in opts if 'mode' not in o] + ['sol:chk:fail', 'wantsol=1'] + (['sol:chk:infeas'] if chk_infeas else [])
        r3 = mpmon.run_case(exe, wd, 's%df' % k, nl, opts=fopts, acc={'*': 2}, script='\n'.join(S) + '\n', timeout=120)
        death = run.classify_death(r3)
        if death and death[0] not in ('exit:1', 'exit:255'):
            res.append(('%s:%s' % (death[0], death[1]), 'driver died with sol:chk:fail: ' + death[2][-300:]))
        elif r3['sol'] is None:
            res.append(('fail-option:no-sol-file', (r3['out'] + r3['err'])[-200:].decode('utf-8', 'replace')))
        else:
            try:
                s = solfile.parse(r3['sol'])
                info['failrun'] = s['code']
                info['fail_status'] = st
                if q['violated'] and checked and s['code'] != 150:
                    res.append(('fail-option:violating-point-ends-with-other-code' + ('' if st == 0 else ':solver-status-%d' % (st // 100 * 100)), 'solver status %d%s, x=%s violated %s: solve_result %s, message %s' % (st, ' with sol:chk:infeas' if chk_infeas else '', [str(t) for t in q['p']], q['tags'], s['code'], s['message'][:200])))
                if (not q['violated'] or not checked) and s['code'] != st:
                    res.append(('fail-option:%s-ends-with-code-%s' % ('feasible-point' if not q['violated'] else 'unchecked-infeasible-status', s['code']), 'solver status %d, x=%s: message %s' % (st, [str(t) for t in q['p']], s['message'][:300])))
            except solfile.SolError as ex:
                res.append(('fail-option:sol-malformed', str(ex)))
        if not res:
            for suf in ('', 'c', 'f'):
                for ext in ('.nl', '.sol', '.trace', '.script'):
                    try:
                        os.unlink(r['base'] + suf + ext)
                    except OSError:
                        pass
        return k, res, info

    for k, res, info in run.pmap_proc(one, range(ncases), chunk=4):
        nt = info['judged'] and info['rep'] and info['clean'] and any(op in info['ops'] for op in ('abs', 'min', 'max', 'if', 'count', 'pl', '^2', '*', 'numberof', 'and', 'or', 'not', 'lt', 'le', 'eq', 'ge', 'gt', 'ne', 'iff', 'implies', 'alldiff', 'atleast', 'atmost', 'exactly'))
        ctx.count('%s|%s|%s' % (info['mode'], info['tol'], ','.join(info['ops'])[:70]), nontrivial=bool(nt))
        ctx.bump('points_judged', info['judged'])
        ctx.bump('models_delivering_a_cone', 1 if info.get('cone') else 0)
        ctx.bump('points_violating', info['rep'])
        ctx.bump('points_satisfying', info['clean'])
        ctx.bump('points_skipped_because_the_delivered_model_excludes_a_feasible_point', info.get('auxbad', 0))
        ctx.bump('points_skipped_because_the_delivered_model_admits_an_infeasible_point', info.get('relaxed', 0))
        if info['failrun'] is not None:
            ctx.bump('fail_option_runs')
            ctx.bump('fail_option_runs_ending_150', 1 if info['failrun'] == 150 else 0)
            ctx.bump('fail_option_runs_with_solver_status_%d' % (info.get('fail_status', 0) // 100 * 100))
        if info['judged'] >= 10:
            ctx.sample(dict(case=k, mode=info['mode'], tolerance_config=info['tol'], points=info['judged'], violating=info['rep'], operators=info['ops'][:8]), cap=5)
        seen = set()
        for key, text in res:
            if key in seen:
                continue
            seen.add(key)
            ctx.violation(key, '%s (case %d)' % (text[:700], k), dict(case=k, seed=seed, info=info))
    ctx.assumptions += ['all flat constraint types accepted natively, so every auxiliary variable is defined by a functional constraint and has one true value',
                        'points are exactly feasible or violate by >= 2^-12 (default tolerances) / lie exactly on or >= 1/256 beyond the absolute tolerance 1/4 (tolerance configuration, relative tolerance 0, models without numberof/alldiff whose equality tests are tolerance-based in the checker)',
                        'in the tolerance configuration, at a point within tolerance that is not exactly feasible, only report lines about original items (variable bounds/integrality, algebraic constraints, objective) are judged: inferred bounds of auxiliary variables are not scaled with the tolerance; such points are not used for the sol:chk:fail run',
                        'a feasible NL point whose completed auxiliary values leave the delivered bounds of an auxiliary variable is skipped (the delivered model excludes it: decided under C01/C06), and so is an infeasible NL point that satisfies every delivered constraint under the oracle semantics (the conversion lost a constraint: C01); in the tolerance configuration points off a variable bound by 0 < d <= T are judged only for purely linear models (the converter may simplify any expression with the variable domain, e.g. fold max(x) of a fixed x)',
                        'the modes tested contain bits {1,2} or {32,64}; partial modes are only tested for mode 0 (nothing may be reported)']
    return ctx.finish(RULE, floor=40)


def replay(path):
    print(open(path).read()); return 0
