"""C16: GSL bindings return consistent derivatives or an explicit error."""
import os, re
from . import build, run

RULE = ("src/gsl/amplgsl.cc compiled against a stand-in funcadd.h and the system GSL; every function registered through Addfunc is called with "
        "argument vectors from per-argument pools (regular points, integers, +-tiny/huge, 0, INT_MIN/INT_MAX, NaN, +-Inf) in the modes value / "
        "value+derivs / value+derivs+hes with random dig masks, twice (determinism; random-valued functions after reseeding); oracle: no error => "
        "value, requested first and second partials are not NaN; first (second) partials agree with Ridders extrapolation of the same binding's "
        "values (first partials) within 1e-3 rel + 1000*err + 1e-8, a disagreement must reproduce at a neighbouring point; evaluation = one "
        "function x 18 argument vectors (4 systematic with first argument 0,1,2,3, 9 with orders 1..3 and second argument -1,0,1, 5 random) + the integer-plateau probe x 3 modes; non-trivial = >=1 derivative comparison or >=1 explicit error; distinct = distinct function names")


def builds():
    shim = os.path.join(build.HARN, 'shim')
    return dict(asan=build.build('asan', 'gsl_mon', ['gsl_mon.cc'], lib=False, repo_srcs=['src/gsl/amplgsl.cc'],
                                 extra_flags=['-I' + shim], link_flags=['-lgsl', '-lgslcblas', '-lm']))


def prebuild():
    builds()


def main(tier, seed):
    ctx = run.Ctx('C16', tier, seed)
    exe = builds()['asan']
    names = [l.split()[0] for l in run.run_proc([exe, '--list'], 60)['out'].decode().splitlines()]
    nfun = len(names)
    tot = dict(calls=0, dchecks=0, d2checks=0, agree=0, inconclusive=0, errors_reported=0, deriv_errors=0)
    fns = set()

    def on_line(j):
        for k in tot:
            tot[k] += j[k]
        fns.add(j['fn'])
        ctx.count(j['fn'], nontrivial=(j['dchecks'] + j['errors_reported']) > 0)
        if j['dchecks'] >= 3 and j['errors_reported']:
            ctx.sample(dict(case=j['case'], function=j['fn'], nargs=j['nargs'], calls=j['calls'], first_derivative_checks=j['dchecks'],
                            second_derivative_checks=j['d2checks'], agreed=j['agree'], inconclusive=j['inconclusive'], explicit_errors=j['errors_reported']), cap=5)
        for cls, (cnt, ex) in j['classes'].items():
            ctx.violation(cls, '%s: %s' % (cls, ex), dict(case=j['case'], function=j['fn'], count=cnt, example=ex,
                                                         cmd=[exe, '--seed', str(seed), '--from', str(j['case']), '--to', str(j['case'] + 1)]))

    def on_death(case, d, cmd):
        kind, top, exc = d
        if kind == 'harness-failure':
            ctx.inconcl('harness failure: ' + exc[-300:]); return
        if kind == 'oom':
            ctx.bump('allocation_limit_aborts'); return True
        m = re.search(r'VERIF-HANG (\w+)\((.*)$', exc, re.M)
        fn = names[case % nfun] if names else '?'
        if m:
            # a wall-clock limit is not a verdict: O(n) algorithms inside libgsl with orders like 2^31-1 are slow, not wrong
            ctx.bump('calls_exceeding_8s_inconclusive')
            ctx.addset('examples_of_calls_exceeding_8s', m.group(0)[11:200])
            return True
        ctx.violation('%s:%s' % (kind, fn), 'GSL binding %s: %s %s' % (fn, kind, (m.group(0) if m else top)), dict(cmd=cmd, report=exc[-3000:]))
        return
        ctx.violation('%s:%s' % (kind, top), 'GSL binding died on case %d: %s in %s' % (case, kind, top), dict(cmd=cmd, report=exc))

    rounds = ctx.n(4, 120)
    run.run_sharded(exe, [], nfun * rounds, on_line, on_death, seed, timeout_per_case=120, shards=16)
    ctx.extras.update(registered_functions=nfun, functions_exercised=len(fns), binding_calls=tot['calls'], first_derivative_checks=tot['dchecks'],
                      second_derivative_checks=tot['d2checks'], derivative_checks_agreed=tot['agree'], derivative_checks_inconclusive=tot['inconclusive'],
                      explicit_errors=tot['errors_reported'], derivative_errors=tot['deriv_errors'],
                      sanitizers='ASan + UBSan(bounds,...) on amplgsl.cc and the monitor; libgsl itself is uninstrumented')
    ctx.assumptions += ['funcadd.h is a stand-in declaring only what amplgsl.cc uses; both sides are compiled against it',
                        'the derivative check is a formula check (sign/factor/argument errors), not an accuracy check of GSL',
                        'float->int conversion UB in the bindings\' integer-argument checks is outside the statement (no UBSan float-cast check here)']
    return ctx.finish(RULE, floor=100)


def replay(path):
    builds()
    return run.generic_replay(path)
