"""Content-hash keyed builds of harnesses against /repo's *current working tree*.

Every object file has a key = sha256(compiler command + content hash of every
file it depended on at its last compile, from the compiler's -MMD output).  An
object is reused only if that key still matches, so an edited /repo (whatever
its mtimes) always yields fresh objects and an unchanged one costs nothing.
No use of /tmp; everything lives under /verif/.build (git-ignored).
"""
import hashlib, json, os, shlex, subprocess, sys, time
from concurrent.futures import ThreadPoolExecutor

VERIF = os.path.dirname(os.path.dirname(os.path.abspath(__file__)))
REPO = os.environ.get("VERIF_REPO", "/repo")
BUILD = os.environ.get("VERIF_BUILD") or os.path.join(VERIF, ".build")    # VERIF_BUILD: private build/work/evidence root of a seeded-change trial
HARN = os.path.join(VERIF, "harness")

GUARD = "MP_VERIF_HOOKS"

DEFINES = ['-DNDEBUG', '-D' + GUARD, '-DMP_DATE=20240320',
           '-DMP_SYSINFO="Linux x86_64"', '-DMP_USE_ATOMIC', '-DMP_USE_HASH',
           '-DMP_USE_UNIQUE_PTR']
INCLUDES_REPO = ['-I' + REPO + '/include', '-I' + REPO + '/src', '-I' + REPO + '/nl-writer2/include']
# the regenerated nl-opcodes.h (see generated()) shadows the git-ignored copy in /repo
INCLUDES = ['-I' + os.path.join(BUILD, 'gen', 'include')] + INCLUDES_REPO + ['-I' + HARN]
# the nlw2 library of the repository is built with its own include directory only (it has its own copy of nl-header.h)
INCLUDES_NLW2 = ['-I' + os.path.join(BUILD, 'gen', 'include'), '-I' + REPO + '/nl-writer2/include']

LIB_SRCS = ['src/' + f for f in (
    'expr.cc nl-reader.cc option.cc os.cc problem.cc rstparser.cc sol.cc '
    'solver.cc sp.cc std_constr.cc utils_file.cc utils_string.cc '
    'utils_clock.cc format.cc posix.cc expr-info.cc').split()] + [
    'src/mp/flat/encodings.cpp', 'src/mp/flat/piecewise_linear.cpp']
NLW2_SRCS = ['nl-writer2/src/' + f for f in
             'dtoa.cc nl-writer2.cc nl-utils.cc nl-solver.cc nl-model-c.cc nl-solver-c.cc'.split()]

SAN_MEM = ('-fsanitize=address,bounds,vla-bound,return,unreachable,builtin '
           '-fno-sanitize-recover=all -D_GLIBCXX_ASSERTIONS')
SAN_FULL = ('-fsanitize=address,undefined,float-cast-overflow -fno-sanitize=vptr '
            '-fno-sanitize-recover=all -D_GLIBCXX_ASSERTIONS')

VARIANTS = {
    # memory-safety monitor set (properties that claim no memory error / no crash)
    'asan': dict(cxx='g++', flags='-std=c++17 -O1 -g1 -fno-omit-frame-pointer ' + SAN_MEM),
    # + full UBSan (properties that claim freedom from undefined behaviour)
    'asanfull': dict(cxx='g++', flags='-std=c++17 -O1 -g1 -fno-omit-frame-pointer ' + SAN_FULL),
    'tsan': dict(cxx='g++', flags='-std=c++17 -O1 -g1 -fno-omit-frame-pointer -fsanitize=thread'),
    # the repo's own flags: confirms crash verdicts without monitors, bulk enumeration
    'plain': dict(cxx='g++', flags='-std=c++17 -O2 -g1'),
    'fuzz': dict(cxx='clang++', flags='-std=gnu++17 -O1 -g -fno-omit-frame-pointer '
                 '-fsanitize=fuzzer-no-link,address,undefined -fno-sanitize=vptr,object-size '
                 '-fno-sanitize-recover=all'),
}

_hash_cache = {}


def fhash(path):
    try:
        st = os.stat(path)
    except OSError:
        return 'missing'
    k = (path, st.st_mtime_ns, st.st_size)
    h = _hash_cache.get(k)
    if h is None:
        with open(path, 'rb') as f:
            h = hashlib.sha256(f.read()).hexdigest()
        _hash_cache[k] = h
    return h


def _parse_depfile(path):
    try:
        txt = open(path).read()
    except OSError:
        return None
    txt = txt.replace('\\\n', ' ')
    deps = []
    for line in txt.splitlines():
        if ':' not in line:
            continue
        tgt, rest = line.split(':', 1)
        deps += shlex.split(rest)
        break
    return sorted(set(os.path.abspath(d) for d in deps))


def _key(cmd, deps):
    h = hashlib.sha256()
    h.update(json.dumps(cmd).encode())
    for d in deps:
        # system headers are part of the image; hash only repo/verif files
        if d.startswith('/usr/') or d.startswith('/opt/'):
            continue
        h.update(d.encode())
        h.update(fhash(d).encode())
    return h.hexdigest()


def _compile_one(cmd, src, obj):
    dep = obj + '.d'
    keyf = obj + '.key'
    full = cmd + ['-MMD', '-MF', dep, '-c', src, '-o', obj]
    deps = _parse_depfile(dep)
    if deps is not None and os.path.exists(obj) and os.path.exists(keyf):
        if open(keyf).read() == _key(full, deps):
            return (obj, False, 0.0, '')
    t0 = time.time()
    os.makedirs(os.path.dirname(obj), exist_ok=True)
    for f in (keyf,):
        if os.path.exists(f):
            os.unlink(f)
    p = subprocess.run(full, capture_output=True, text=True)
    if p.returncode != 0:
        raise BuildError('compile failed: %s\n%s' % (' '.join(full), p.stderr[-6000:]))
    deps = _parse_depfile(dep) or [os.path.abspath(src)]
    with open(keyf, 'w') as f:
        f.write(_key(full, deps))
    return (obj, True, time.time() - t0, p.stderr)


class BuildError(Exception):
    pass


GEN = os.path.join(BUILD, 'gen')
_gen_done = [False]


def generated():
    """src/expr-info.cc and nl-writer2/include/mp/nl-opcodes.h are products of src/gen-expr-info.cc (add_custom_command in the repository's
    CMakeLists.txt; git-ignored).  They are regenerated here from the current working tree, so that a change of the generator reaches the
    checks exactly as it reaches the repository's own build; the copies lying in /repo are not used."""
    if _gen_done[0]:
        return
    tool = os.path.join(GEN, 'gen-expr-info')
    cmd = ['g++', '-std=c++17', '-O1'] + DEFINES + INCLUDES_REPO
    objs = []
    rebuilt = False
    for sname in ('src/gen-expr-info.cc', 'src/format.cc', 'src/posix.cc'):
        o = os.path.join(GEN, 'obj', sname.replace('/', '_') + '.o')
        r = _compile_one(cmd, os.path.join(REPO, sname), o)
        rebuilt = rebuilt or r[1]
        objs.append(o)
    out_cc = os.path.join(GEN, 'src', 'expr-info.cc'); out_h = os.path.join(GEN, 'include', 'mp', 'nl-opcodes.h')
    if rebuilt or not (os.path.exists(tool) and os.path.exists(out_cc) and os.path.exists(out_h)):
        os.makedirs(os.path.dirname(out_cc), exist_ok=True); os.makedirs(os.path.dirname(out_h), exist_ok=True)
        tmp = '%s.%d' % (tool, os.getpid())
        p = subprocess.run(['g++'] + objs + ['-o', tmp], capture_output=True, text=True)
        if p.returncode != 0:
            raise BuildError('link failed: gen-expr-info\n' + p.stderr[-3000:])
        t_cc, t_h = '%s.%d' % (out_cc, os.getpid()), '%s.%d' % (out_h, os.getpid())
        p = subprocess.run([tmp, t_cc, t_h], capture_output=True, text=True)
        if p.returncode != 0 or not os.path.exists(t_cc) or not os.path.exists(t_h):
            raise BuildError('gen-expr-info failed: ' + (p.stdout + p.stderr)[-2000:])
        for a, b in ((t_cc, out_cc), (t_h, out_h)):        # keep the files (and their mtimes) when the content is unchanged
            if os.path.exists(b) and open(a, 'rb').read() == open(b, 'rb').read():
                os.unlink(a)
            else:
                os.replace(a, b)
        os.replace(tmp, tool)
    _gen_done[0] = True


def objname(variant, src, tag=''):
    base = src.replace('/', '_').replace('.', '_')
    return os.path.join(BUILD, variant, 'obj', base + tag + '.o')


def build(variant, name, harness_srcs, lib=True, nlw2=False, extra_srcs=(),
          extra_flags=(), link_flags=(), quiet=False, tag='', repo_srcs=()):
    """Build executable `name` for `variant`; returns its path.

    harness_srcs: files under /verif/harness; repo_srcs: further files under
    /repo compiled into this target only (e.g. src/gsl/amplgsl.cc).
    """
    generated()
    v = VARIANTS[variant]
    base = [v['cxx']] + shlex.split(v['flags']) + DEFINES + INCLUDES + list(extra_flags)
    base_nlw2 = [v['cxx']] + shlex.split(v['flags']) + DEFINES + INCLUDES_NLW2 + list(extra_flags)
    jobs = []
    srcs = []
    if lib:
        srcs += [(os.path.join(GEN, 'src', 'expr-info.cc') if s == 'src/expr-info.cc' else os.path.join(REPO, s), objname(variant, s, tag)) for s in LIB_SRCS]
    nlw2_objs = set()
    if nlw2:
        srcs += [(os.path.join(REPO, s), objname(variant, s, tag)) for s in NLW2_SRCS]
        nlw2_objs = {objname(variant, s, tag) for s in NLW2_SRCS}
    for s in repo_srcs:
        srcs.append((os.path.join(REPO, s), objname(variant, s, tag + '_' + name)))
    for s in list(harness_srcs) + list(extra_srcs):
        srcs.append((os.path.join(HARN, s), objname(variant, 'harness/' + s, tag + '_' + name)))
    t0 = time.time()
    rebuilt = 0
    with ThreadPoolExecutor(max_workers=int(os.environ.get('VERIF_JOBS', '16'))) as ex:
        futs = [ex.submit(_compile_one, base_nlw2 if o in nlw2_objs else base, s, o) for s, o in srcs]
        res = [f.result() for f in futs]
    rebuilt = sum(1 for r in res if r[1])
    exe = os.path.join(BUILD, variant, 'bin', name)
    os.makedirs(os.path.dirname(exe), exist_ok=True)
    objs = [o for _, o in srcs]
    lk = [v['cxx']] + shlex.split(v['flags']) + objs + ['-o', exe] + list(link_flags) + ['-ldl', '-lpthread']
    lkey = hashlib.sha256((json.dumps(lk) + ''.join(open(o + '.key').read() for o in objs)).encode()).hexdigest()
    lkf = exe + '.key'
    if rebuilt or not os.path.exists(exe) or not os.path.exists(lkf) or open(lkf).read() != lkey:
        p = subprocess.run(lk, capture_output=True, text=True)
        if p.returncode != 0:
            raise BuildError('link failed: %s\n%s' % (name, p.stderr[-6000:]))
        with open(lkf, 'w') as f:
            f.write(lkey)
    if not quiet:
        print('[build] %s/%s: %d/%d objects rebuilt, %.1fs' % (variant, name, rebuilt, len(srcs), time.time() - t0),
              file=sys.stderr)
    return exe


def tree_id():
    """Short content hash of the /repo sources checks compile (for evidence)."""
    h = hashlib.sha256()
    for top in ('include', 'src', 'nl-writer2'):
        for dp, dn, fn in sorted(os.walk(os.path.join(REPO, top))):
            dn.sort()
            for f in sorted(fn):
                if f.endswith(('.h', '.hpp', '.cc', '.cpp', '.c')):
                    p = os.path.join(dp, f)
                    h.update(p.encode())
                    h.update(fhash(p).encode())
    return h.hexdigest()[:16]
