"""C11: solver option parsing is total, faithful and ordered."""
from . import build, run

RULE = ("a BasicSolver subclass with stored int/double/string options, inline and out-of-line synonyms, a wildcard option and a flag; "
        "seeded grammar-derived assignment sequences (names and synonyms in random letter case, with/without '=', boundary ints, 17-digit "
        "doubles, plain/single-/double-quoted strings, 'name=?', wildcard keys, deliberate unknown names and flag-with-value errors) spread "
        "over mp_options, <exe>_options (shadowing <solver>_options) and argv, judged against the generator's own final state; plus hostile "
        "strings (unterminated quotes, '=5', '==', 200000-char tokens, bytes >=0x80, control characters) held in exact-size heap buffers under "
        "ASan; non-trivial = >=2 assignments from >=2 sources; distinct = distinct (hostile, assignment-kind set, source mask, #errors) signatures")


def builds():
    return dict(asan=build.build('asan', 'opts_mon', ['opts_mon.cc']))


def prebuild():
    builds()


def main(tier, seed):
    ctx = run.Ctx('C11', tier, seed)
    exe = builds()['asan']
    kinds = {}

    def on_line(j):
        nsrc = bin(j['sources'] & 15).count('1')
        ctx.count('%d|%s|%d|%d' % (j['hostile'], j['kinds'], j['sources'], j['errors_expected']), nontrivial=j['hostile'] or (j['assignments'] >= 2 and nsrc >= 2))
        for k in j['kinds'].split(','):
            if k:
                kinds[k] = kinds.get(k, 0) + 1
        ctx.bump('assignments_checked', j['assignments'])
        ctx.bump('hostile_cases' if j['hostile'] else 'wellformed_cases')
        if j['exc']:
            ctx.bump('cases_ending_in_mp_Error' if j['exc'].startswith('mp::Error') else 'cases_ending_in_other_exception')
        if not j['hostile'] and j['assignments'] >= 5 and j['errors_expected']:
            ctx.sample(dict(case=j['case'], assignments=j['assignments'], kinds=j['kinds'], source_mask=j['sources'], errors_expected=j['errors_expected'],
                            errors_reported=j['errors_reported'], parse_options_returned=j['ret']), cap=4)
        for b in j['bad']:
            ctx.violation(b, '%s (case %d; %s)' % (b, j['case'], j['detail']),
                          dict(case=j['case'], detail=j['detail'], mp_options=j.get('mp_options'), texe_options=j.get('texe_options'),
                               tsolver_options=j.get('tsolver_options'), argv=j.get('argv'),
                               cmd=[exe, '--seed', str(seed), '--from', str(j['case']), '--to', str(j['case'] + 1)]))

    def on_death(case, d, cmd):
        kind, top, exc = d
        if kind == 'harness-failure':
            ctx.inconcl('harness failure: ' + exc[-300:]); return
        if kind == 'oom':
            ctx.bump('allocation_limit_aborts'); return True
        ctx.violation('%s:%s' % (kind, top), 'option parsing died on case %d: %s in %s' % (case, kind, top), dict(cmd=cmd, report=exc))

    run.run_sharded(exe, [], ctx.n(60000, 3000000), on_line, on_death, seed, timeout_per_case=5)
    ctx.extras.update(assignment_kinds=kinds, sanitizers='ASan + UBSan(bounds,...) + _GLIBCXX_ASSERTIONS; option strings in exact-size heap blocks')
    ctx.assumptions += ['on the command line a string value extends to the end of the argument (the shell has removed quotes)',
                        'error reports go to a recording ErrorHandler so that parsing continues after an error, as in drivers that install one']
    return ctx.finish(RULE, floor=100)


def replay(path):
    builds()
    return run.generic_replay(path)
