"""C14: SOLReader2 is total and memory-safe on arbitrary files (ASan + full UBSan + handler-side monitor)."""
import json, os
from . import build, run, fuzz

RULE = ("seeded generator of valid text / CRLF-text / binary .sol files (own encoders) x 0-4 byte/field/line-level mutations "
        "(truncation, hostile counts and suffix headers, long lines, NULs, duplicated/deleted chunks) x declared sizes {0, smaller, "
        "equal, larger} x handler policy {drain all, some, none}; one mp::ReadSOLFile call per case under ASan+UBSan; non-trivial = "
        "the reader got past the message block (any vector/objno/suffix callback or a non-open error); then a coverage-guided libFuzzer stage (clang, ASan+UBSan, same handler-side monitor) seeded with 600 generated files; distinct = distinct (format, "
        "mutation kinds, policy, return code, #suffixes) signatures")


def builds():
    return dict(full=build.build('asanfull', 'solread_mon', ['solread_mon.cc'], lib=False, repo_srcs=['nl-writer2/src/nl-utils.cc']))


def fuzz_build():
    return build.build('fuzz', 'fuzz_sol', ['fuzz_sol.cc'], lib=False, repo_srcs=['nl-writer2/src/nl-utils.cc'], link_flags=['-fsanitize=fuzzer'])


def prebuild():
    builds(); fuzz_build()


def main(tier, seed):
    ctx = run.Ctx('C14', tier, seed)
    exe = builds()['full']
    wd = ctx.workdir()
    codes, hows = {}, {}

    def on_line(j):
        nt = j['code'] not in (-100, 1) and (j['dual_offered'] > 0 or j['primal_offered'] > 0 or j['nsuf'] > 0 or j['code'] > 1)
        ctx.count('%d|%s|%d|%d|%d' % (j['fmt'], j['how'], j['policy'], j['code'], j['nsuf']), nontrivial=nt)
        codes[str(j['code'])] = codes.get(str(j['code']), 0) + 1
        for h in j['how'].split('+'):
            hows[h] = hows.get(h, 0) + 1
        if j['valid_state']:
            ctx.bump('selfcheck_valid_%s_%s' % ('crlf' if j['fmt'] == 2 else 'binary' if j['binary'] else 'text', 'accepted' if j['valid_state'] == 1 else 'rejected'))
        if j['exc']:
            ctx.bump('exceptions_' + j['exc'])
        if j['how'] != 'valid' and j['code'] > 1:
            ctx.sample(dict(case=j['case'], mutation=j['how'], binary=j['binary'], policy=j['policy'], return_code=j['code'], message=j['emsg']), cap=4)
        for b in j['bad']:
            ctx.violation(b, '%s (case %d, %s, mutation %s, rc=%d, msg=%r)' % (b, j['case'], 'binary' if j['binary'] else 'text', j['how'], j['code'], j['emsg']),
                          dict(case=j['case'], how=j['how'], hex=j.get('hex'), decl_vars=j.get('decl_vars'), decl_cons=j.get('decl_cons'),
                               cmd=[exe, '--dir', wd, '--seed', str(seed), '--from', str(j['case']), '--to', str(j['case'] + 1)]))

    def on_death(case, d, cmd):
        kind, top, exc = d
        if kind == 'harness-failure':
            ctx.inconcl('harness failure: ' + exc[-300:]); return
        if kind == 'oom':
            ctx.bump('allocation_limit_aborts'); return True
        ctx.violation('%s:%s' % (kind, top), 'SOL reader died on case %d: %s in %s' % (case, kind, top), dict(cmd=cmd, report=exc))

    n = ctx.n(100000, 3000000)
    run.run_sharded(exe, ['--dir', wd], n, on_line, on_death, seed, timeout_per_case=5)
    # ---- coverage-guided tier (clang libFuzzer + ASan/UBSan) on the same monitor, seeded with generated valid and mutated files
    fexe = fuzz_build()
    corpus = os.path.join(wd, 'corpus0')
    import shutil
    shutil.rmtree(corpus, ignore_errors=True); os.makedirs(corpus)
    run.run_sharded(exe, ['--dir', wd, '--dump-dir', corpus], 600, lambda j: None, lambda *a: None, seed + 77, timeout_per_case=5, shards=4)
    fuzz.run_fuzzers(ctx, fexe, corpus, ctx.n(400000, 40000000), seed, wd, max_len=6000, what='mp::ReadSOLFile')
    shutil.rmtree(corpus, ignore_errors=True)
    ctx.extras.update(return_codes=codes, mutation_kinds=hows,
                      sanitizers='ASan + UBSan(undefined, float-cast-overflow) + _GLIBCXX_ASSERTIONS, halt on first report, one restart per report')
    ctx.assumptions += ['std::bad_alloc for a file-declared gigantic suffix is resource exhaustion, not a memory error (counted)',
                        'member-array overflows inside one object are only visible through UBSan bounds instrumentation']
    for k in ('text', 'binary'):
        acc, rej = ctx.extras.get('selfcheck_valid_%s_accepted' % k, 0), ctx.extras.get('selfcheck_valid_%s_rejected' % k, 0)
        if acc == 0 or rej > acc // 10:
            ctx.inconcl('harness self-check: generated valid %s files are not accepted (%d/%d)' % (k, acc, acc + rej))
            ctx.sigs.clear()
    return ctx.finish(RULE, floor=100)


def replay(path):
    return run.generic_replay(path)
