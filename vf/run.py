"""Runner shared by all property drivers: context, sharded harness execution with
crash/hang recovery, sanitizer report parsing, known-findings matching,
evidence and replay writing, three-valued verdict -> exit code."""
import json, os, re, signal, subprocess, sys, time, hashlib, random
from concurrent.futures import ThreadPoolExecutor

VERIF = os.path.dirname(os.path.dirname(os.path.abspath(__file__)))
_B = os.environ.get('VERIF_BUILD')       # set only for trials of seeded changes on a scratch copy: nothing of a trial lands in /verif/evidence
EVID = os.path.join(_B, 'evidence') if _B else os.path.join(VERIF, 'evidence')
REPLAY = os.path.join(_B, 'replay') if _B else os.path.join(VERIF, 'replay')
WORK = os.path.join(_B or os.path.join(VERIF, '.build'), 'work')
NJOBS = int(os.environ.get('VERIF_JOBS', '16'))


class HarnessFailure(Exception):
    """the machinery itself failed (exit 2, inconclusive), as opposed to the code under test"""


ASAN_ENV = {
    'ASAN_OPTIONS': 'abort_on_error=0:detect_leaks=0:exitcode=99:allocator_may_return_null=1:'
                    'max_allocation_size_mb=2048:malloc_context_size=8:handle_abort=1:quarantine_size_mb=16',
    'UBSAN_OPTIONS': 'print_stacktrace=1:halt_on_error=1:exitcode=98',
    'TSAN_OPTIONS': 'halt_on_error=1:exitcode=97:second_deadlock_stack=1',
}


def load_findings():
    out = []
    p = os.path.join(VERIF, 'known_findings.jsonl')
    if os.path.exists(p):
        for l in open(p):
            l = l.strip()
            if l and not l.startswith('#'):
                out.append(json.loads(l))
    return out


_FRAME = re.compile(r'^\s*#(\d+) 0x[0-9a-f]+ in (.+?) (/[^\s:]+)(?::(\d+))?(?::\d+)?\s*$')
_FRAME2 = re.compile(r'^\s*#(\d+) 0x[0-9a-f]+ in (.+?) \(')


def _short_fn(fn):
    # strip template arguments and parameter lists so keys survive refactoring noise
    out, depth = [], 0
    for ch in fn:
        if ch in '<(':
            depth += 1
        elif ch in '>)':
            depth -= 1
        elif depth == 0:
            out.append(ch)
    s = ''.join(out).strip()
    s = s.split(' ')[-1] if ' ' in s and not s.startswith('operator') else s
    return s


def parse_sanitizer(stderr, repo='/repo'):
    """Return (kind, key_tail, excerpt) or None.  kind e.g. 'asan:heap-buffer-overflow'."""
    if not stderr:
        return None
    lines = stderr.splitlines()
    kind = None
    start = 0
    for i, l in enumerate(lines):
        if re.search(r'AddressSanitizer: (allocator is out of memory|requested allocation size|out-of-memory|allocation-size-too-big)', l) or \
                re.search(r'AddressSanitizer failed to allocate', l):
            return ('oom', '', '\n'.join(lines[i:i + 12]))
        m = re.search(r'ERROR: AddressSanitizer: ([\w-]+)', l)
        if m:
            kind = 'asan:' + m.group(1)
            start = i
            break
        m = re.search(r'([^\s:]+):(\d+):(\d+): runtime error: (.*)$', l)
        if m:
            msg = re.sub(r'0x[0-9a-f]+', 'ADDR', m.group(4))
            msg = re.sub(r'-?\d+(\.\d+)?(e[+-]?\d+)?', 'N', msg)
            msg = re.sub(r"'[^']*'", 'T', msg)
            kind = 'ubsan:' + msg.strip().replace(' ', '-')[:60]
            start = i
            break
        m = re.search(r'WARNING: ThreadSanitizer: ([\w -]+?)(?: \(|$)', l)
        if m:
            kind = 'tsan:' + m.group(1).strip().replace(' ', '-')
            start = i
            break
        if 'Assertion' in l and ('failed' in l or '__glibcxx_assert' in l or "Assertion '" in l):
            m2 = re.search(r"Assertion '(.*)' failed", l)
            kind = 'glibcxx-assert:' + (re.sub(r'\W+', '-', m2.group(1))[:40] if m2 else 'assert')
            m3 = re.search(r'In function:\s*(.*)$', l)
            start = i
            # libstdc++ assertion message has no stack; use the function in message
            fn = ''
            m4 = re.search(r'(std::[\w:]+)<', l)
            if m4:
                fn = m4.group(1)
            return (kind, fn, '\n'.join(lines[i:i + 6]))
    if kind is None:
        return None
    top = ''
    for l in lines[start:start + 60]:
        m = _FRAME.match(l)
        if m:
            fn, path = m.group(2), m.group(3)
            if (path.startswith(repo + '/') or '/harness/' in path) and not top:
                top = _short_fn(fn)
                if path.startswith(repo + '/'):
                    break
    return (kind, top, '\n'.join(lines[start:start + 40]))


class Ctx:
    def __init__(self, pid, tier, seed, level='exploration'):
        self.pid, self.tier, self.seed, self.level = pid, tier, seed, level
        self.t0 = time.time()
        self.findings = [f for f in load_findings() if f.get('property') == pid]
        self.violations = {}   # key -> dict(what, paths, count)
        self.known_hits = {}   # key -> (entry, count)
        self.inconclusive = []
        self.extras = {}
        self.assumptions = []
        self.samples = []
        self.evals = 0
        self.sigs = set()
        self.rng = random.Random(seed * 1000003 + int(hashlib.sha256(pid.encode()).hexdigest()[:8], 16))
        os.makedirs(os.path.join(REPLAY, pid), exist_ok=True)
        os.makedirs(WORK, exist_ok=True)

    @property
    def quick(self):
        return self.tier == 'quick'

    def n(self, quick, thorough):
        return quick if self.quick else thorough

    def workdir(self, sub=''):
        d = os.path.join(WORK, self.pid + ('-' + sub if sub else ''), '%s-%s' % (self.tier, self.seed))
        if os.path.isdir(d):       # files kept from an earlier run of the same tier/seed (violating cases) are stale now
            import shutil
            shutil.rmtree(d, ignore_errors=True)
        os.makedirs(d, exist_ok=True)
        self._workdirs = getattr(self, '_workdirs', []) + [d]
        return d

    def count(self, sig=None, nontrivial=True):
        self.evals += 1
        if sig is not None and nontrivial:
            self.sigs.add(sig)

    def bump(self, name, by=1):
        self.extras[name] = self.extras.get(name, 0) + by

    def addset(self, name, item):
        s = self.extras.setdefault(name, [])
        if item not in s:
            s.append(item)

    def sample(self, s, cap=5):
        if len(self.samples) < cap:
            self.samples.append(s)

    def inconcl(self, why):
        if len(self.inconclusive) < 50:
            self.inconclusive.append(why)
        self.bump('inconclusive_cases')

    def violation(self, key, what, witness, ext='json'):
        """key: stable identifier of the failing call site/input class/oracle rule."""
        key = self.pid + ':' + key
        for f in self.findings:
            if f.get('status') == 'known' and (f.get('key') == key or
                                               (f.get('key_regex') and re.fullmatch(f['key_regex'], key))):
                e = self.known_hits.setdefault(f['key'] if 'key' in f else f['key_regex'], [f, 0])
                e[1] += 1
                return False
        v = self.violations.setdefault(key, dict(what=what, paths=[], count=0))
        v['count'] += 1
        if len(v['paths']) < 3:
            fn = re.sub(r'[^\w.-]+', '_', key)[:100] + '.%d.%s' % (len(v['paths']), ext)
            path = os.path.join(REPLAY, self.pid, fn)
            if isinstance(witness, bytes):
                open(path, 'wb').write(witness)
            else:
                w = dict(property=self.pid, key=key, what=what, seed=self.seed, tier=self.tier, witness=witness)
                open(path, 'w').write(json.dumps(w, indent=1, default=str))
            v['paths'].append(path)
        return True

    def finish(self, rule, floor=2, exhaustive=None, trusted_base=None):
        for d in getattr(self, '_workdirs', []):          # driver runs by NL input format (written by mpmon.run_case)
            try:
                t = open(os.path.join(d, '.nlfmt')).read()
                self.extras['driver_runs_text_nl'] = self.extras.get('driver_runs_text_nl', 0) + t.count('t')
                self.extras['driver_runs_binary_nl'] = self.extras.get('driver_runs_binary_nl', 0) + t.count('b')
            except OSError:
                pass
        cov = dict(evaluations=self.evals, distinct_nontrivial=len(self.sigs), rule=rule,
                   samples=self.samples[:5] or ['(none)'])
        if exhaustive is not None:
            cov['exhaustive'] = exhaustive
        if trusted_base:
            cov['trusted_base'] = trusted_base
        for k, v in self.extras.items():
            cov[k] = v
        cov['known_findings_hit'] = {k: e[1] for k, e in self.known_hits.items()}
        cov['violation_keys'] = {k: v['count'] for k, v in self.violations.items()}
        if self.inconclusive:
            cov['inconclusive_examples'] = self.inconclusive[:10]
        ev = dict(property_id=self.pid, tier=self.tier, seed=self.seed, level=self.level,
                  coverage=cov, assumptions=self.assumptions, wall_s=round(time.time() - self.t0, 2),
                  violations=len(self.violations))
        os.makedirs(EVID, exist_ok=True)
        with open(os.path.join(EVID, self.pid + '.json'), 'w') as f:
            json.dump(ev, f, indent=1, default=str)
        for k, (e, cnt) in self.known_hits.items():
            print('KNOWN-FINDING: property=%s %s [%s; %d occurrence(s) this run]' % (self.pid, e.get('what', ''), k, cnt))
        for k, v in self.violations.items():
            print('VIOLATION property=%s replay=%s  # %s: %s (x%d)' % (self.pid, v['paths'][0], k, v['what'][:300], v['count']))
        print('[%s] tier=%s seed=%d evaluations=%d distinct_nontrivial=%d violations=%d known=%d inconclusive=%d wall=%.1fs' % (
            self.pid, self.tier, self.seed, self.evals, len(self.sigs), len(self.violations), len(self.known_hits),
            self.extras.get('inconclusive_cases', 0), time.time() - self.t0))
        if not self.violations and not os.environ.get('VERIF_KEEP'):     # a clean run leaves nothing behind (disk space is limited)
            import shutil
            for d in getattr(self, '_workdirs', []):
                shutil.rmtree(d, ignore_errors=True)
        if self.violations:
            return 1
        if len(self.sigs) < floor or self.evals == 0:
            print('INCONCLUSIVE property=%s: observed too little (distinct_nontrivial=%d < floor %d)' % (self.pid, len(self.sigs), floor))
            return 2
        return 0


def run_proc(cmd, timeout, env=None, cwd=None, stdin=None):
    """Run one process; returns dict(rc, out, err, timed_out, sig)."""
    e = dict(os.environ)
    e.update(ASAN_ENV)
    if env:
        e.update(env)
    p = None
    for attempt in range(6):         # the executable may be relinked by a concurrent build (EACCES/ETXTBSY): wait, never a verdict
        try:
            p = subprocess.Popen(cmd, stdout=subprocess.PIPE, stderr=subprocess.PIPE, stdin=subprocess.PIPE if stdin is not None else subprocess.DEVNULL,
                                 env=e, cwd=cwd, start_new_session=True)
            break
        except OSError as ex:
            last = ex
            time.sleep(3)
    if p is None:
        raise HarnessFailure('cannot execute %s: %s' % (cmd[0], last))
    try:
        out, err = p.communicate(stdin, timeout=timeout)
        to = False
    except subprocess.TimeoutExpired:
        try:
            os.killpg(p.pid, signal.SIGKILL)
        except OSError:
            pass
        out, err = p.communicate()
        to = True
    rc = p.returncode
    return dict(rc=rc, out=out, err=err, timed_out=to, sig=(-rc if rc is not None and rc < 0 else None))


def run_proc_watch(cmd, stall, total, env=None, cwd=None):
    """like run_proc for a harness that prints '#B <n>' before each case: the process is killed (timed_out) when no new case has begun for
    `stall` seconds, so a hanging case is found after seconds, not after the whole shard's budget"""
    import threading
    e = dict(os.environ)
    e.update(ASAN_ENV)
    if env:
        e.update(env)
    p = None
    for attempt in range(6):
        try:
            p = subprocess.Popen(cmd, stdout=subprocess.PIPE, stderr=subprocess.PIPE, stdin=subprocess.DEVNULL, env=e, cwd=cwd, start_new_session=True)
            break
        except OSError as ex:
            last = ex
            time.sleep(3)
    if p is None:
        raise HarnessFailure('cannot execute %s: %s' % (cmd[0], last))
    out, err = [], []
    prog = [time.time()]

    def rd_out():
        for l in p.stdout:
            out.append(l)
            if l.startswith(b'#B '):
                prog[0] = time.time()

    def rd_err():
        for l in p.stderr:
            err.append(l)
            if len(err) > 20000:
                del err[:10000]
    t1 = threading.Thread(target=rd_out, daemon=True); t2 = threading.Thread(target=rd_err, daemon=True)
    t1.start(); t2.start()
    t0 = time.time(); to = False
    while p.poll() is None:
        time.sleep(0.05 if time.time() - t0 < 2 else 0.25)
        now = time.time()
        if now - prog[0] > stall or now - t0 > total:
            try:
                os.killpg(p.pid, signal.SIGKILL)
            except OSError:
                pass
            to = True
            break
    p.wait()
    t1.join(5); t2.join(5)
    rc = p.returncode
    return dict(rc=rc, out=b''.join(out), err=b''.join(err), timed_out=to, sig=(-rc if rc is not None and rc < 0 and not to else None))


def classify_death(r):
    """None if the process ended normally (rc 0); else (kind, top, excerpt)."""
    err = r['err'].decode('utf-8', 'replace')
    if r['timed_out']:
        return ('hang', '', err[-2000:])
    san = parse_sanitizer(err)
    if san:
        return san
    if r['sig']:
        return ('signal:%d' % r['sig'], '', err[-2000:])
    if r['rc'] not in (0,):
        return ('exit:%d' % r['rc'], '', err[-2000:])
    return None


def run_sharded(exe, base_args, ncases, on_line, on_death, seed, timeout_per_case=20.0, shards=None,
                env=None, min_shard_timeout=120.0, first=0):
    """Run harness `exe base_args --seed S --from A --to B` over [first, first+ncases) in parallel shards.

    The harness prints '#B <n>' before case n and one JSON line per finished case.
    If a shard dies, on_death(case_no, death, stderr) is called for the case in
    progress and the shard resumes after it.  A timeout is re-run once alone
    before it is reported as a hang.
    """
    shards = shards or min(NJOBS, max(1, ncases // 4))
    per = (ncases + shards - 1) // shards

    hangs = [0]; deaths = [0]

    def work(si):
        a = first + si * per
        b = min(first + ncases, a + per)
        while a < b:
            if hangs[0] >= 6 or deaths[0] >= max(400, ncases // 100):
                return          # several confirmed hangs / hundreds of dead cases: the verdict is a violation already, going on costs minutes to hours
            cmd = [exe] + list(base_args) + ['--seed', str(seed), '--from', str(a), '--to', str(b)]
            r = run_proc_watch(cmd, stall=max(30.0, timeout_per_case * 3), total=max(min_shard_timeout, timeout_per_case * (b - a)), env=env)
            cur = None
            for l in r['out'].decode('utf-8', 'replace').splitlines():
                if l.startswith('#B '):
                    cur = int(l[3:])
                elif l.startswith('{'):
                    try:
                        on_line(json.loads(l))
                    except ValueError:
                        pass
            d = classify_death(r)
            if d is None:
                return
            if cur is None:
                on_death(a, ('harness-failure', '', r['err'].decode('utf-8', 'replace')[-3000:]), cmd)
                return
            if d[0] == 'hang':
                # re-run the suspected case alone once
                c1 = [exe] + list(base_args) + ['--seed', str(seed), '--from', str(cur), '--to', str(cur + 1)]
                r1 = run_proc(c1, timeout=max(60.0, timeout_per_case * 3), env=env)
                d1 = classify_death(r1)
                if d1 is None:
                    for l in r1['out'].decode('utf-8', 'replace').splitlines():
                        if l.startswith('{'):
                            try:
                                on_line(json.loads(l))
                            except ValueError:
                                pass
                    a = cur + 1
                    continue
                d = d1
                if d1[0] == 'hang':
                    hangs[0] += 1
            benign = on_death(cur, d, [exe] + list(base_args) + ['--seed', str(seed), '--from', str(cur), '--to', str(cur + 1)])
            if not benign:          # on_death returns True for deaths it does not judge (allocation limit, a call stopped by the harness's own alarm)
                deaths[0] += 1
            a = cur + 1

    with ThreadPoolExecutor(max_workers=shards) as ex:
        list(ex.map(work, range(shards)))


def _only(items):
    """debugging aid: VERIF_ONLY=k1,k2 restricts a case-parallel check to those case numbers"""
    o = os.environ.get('VERIF_ONLY')
    return [int(x) for x in o.split(',')] if o else items


def pmap(fn, items, jobs=None):
    items = _only(items)
    with ThreadPoolExecutor(max_workers=jobs or NJOBS) as ex:
        return list(ex.map(fn, items))


_PFN = None


def _pcall(a):
    return _PFN(a)


def pmap_proc(fn, items, jobs=None, chunk=2):
    """like pmap but in forked worker processes (for checks whose oracle is Python-heavy); fn's results must be picklable"""
    global _PFN
    import multiprocessing
    items = _only(items)
    _PFN = fn
    with multiprocessing.get_context('fork').Pool(jobs or NJOBS) as pool:
        return pool.map(_pcall, list(items), chunksize=chunk)


def generic_replay(path):
    """Re-run the recorded harness command of a witness (binaries are rebuilt by the caller's builds())."""
    w = json.load(open(path))
    print(json.dumps({k: v for k, v in w.items() if k != 'witness'}, indent=1))
    wit = w.get('witness', {})
    cmd = wit.get('cmd') if isinstance(wit, dict) else None
    if isinstance(cmd, list) and os.path.exists(cmd[0]):
        r = run_proc(cmd, timeout=300)
        sys.stdout.write(r['out'].decode('utf-8', 'replace')[-4000:])
        sys.stdout.write(r['err'].decode('utf-8', 'replace')[-4000:])
        d = classify_death(r)
        print('replay exit:', r['rc'], d[0] if d else 'normal')
        return 1 if d else 0
    print(json.dumps(wit, indent=1)[:4000])
    return 0
