"""./check setup: pre-build every harness variant so that quick checks start warm."""
import importlib, sys, time
from . import build

TARGETS = ['c17', 'c18', 'c14', 'c05', 'c02', 'c03', 'c08', 'c11', 'c13', 'c16', 'c15', 'c10', 'c12', 'c09', 'c19','c20', 'c04', 'c07', 'c06', 'c01']


def main():
    t0 = time.time()
    ok = True
    for t in TARGETS:
        mod = importlib.import_module('vf.' + t)
        if hasattr(mod, 'prebuild'):
            try:
                mod.prebuild()
            except build.BuildError as e:
                print('setup: build failed for %s: %s' % (t, e), file=sys.stderr)
                ok = False
    print('setup done in %.0fs' % (time.time() - t0))
    return 0 if ok else 2
