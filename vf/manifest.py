"""Generates /verif/MANIFEST.json from the table below (python3 -m vf.manifest)."""
import json, os, subprocess

VERIF = os.path.dirname(os.path.dirname(os.path.abspath(__file__)))

# id -> (category, technique, text, note, design_ref)
CHECKS = {
    'C01': ('exploration', 'trace monitoring of the real driver (mpmon, ASan build) + exact point-wise decision of the recorded delivered model (z3 with the original variables fixed, sat witnesses re-validated by an independent evaluator) against exact evaluation of the NL model',
            'Random models of the exact fragment are converted under five acceptance configurations (all native, linear rows only, linear+indicators, linear+quadratic, random subsets with levels 0/1/2) and random cvt:* options; at every test point of the original-variable grid the NL model is evaluated exactly and the delivered model is decided with the original variables fixed: feasible iff feasible, the NL objective value attainable and not improvable over the auxiliary variables; a refusal must carry a diagnostic and a 2xx/5xx code (2xx only if no test point is feasible).',
            'functional constraints accepted natively are read as equalities; rows carrying the non-dyadic comparison epsilon and rounded inferred bounds hold within 1e-9 relative, objectives are compared to 1e-6; points decided by a comparison gap below 1/512 and runs with an announced piecewise-linear approximation are not judged; unsat answers rest on z3', '2/C01'),
    'C06': ('exploration', 'trace monitoring of the real driver (mpmon, ASan build): bounds/types of every auxiliary variable and its defining functional constraint as received by the ModelAPI, judged by forward evaluation with independent semantics',
            'Random models with hostile variable domains (finite, fixed, negative, zero-crossing, half-infinite, free; continuous/integer/binary) and expressions over 40 functional constraint types (affine, quadratic, abs, min, max, powers incl. negative/fractional exponents, a^x, division, if-then-else, counting, logic, exp/log/trigonometric/hyperbolic functions, piecewise-linear) are converted with every type accepted natively; at every sampled domain point each auxiliary value must lie inside the delivered bounds and be integral if declared integer, and each delivered objective must equal the NL objective.',
            '1e-9 relative slack on bounds (they are computed in double arithmetic); models with constraints are judged at NL-feasible points only; two known findings about the forced positivity of log arguments, attributed by region', '2/C06'),
    'C07': ('exploration', 'monitoring of the real PostsolveSolution -> solution check path inside the real driver (mpmon, ASan build) with scripted candidate points; exact reference evaluation of the NL model',
            'Random models of the exact fragment (all flat types native) get up to 14 candidate points each: feasible, violating constraints, off a bound, fractional integers, on/just beyond an absolute tolerance of 1/4; every point is completed with the true values of all auxiliary variables and objectives and pushed through the real check under sol:chk:mode in {default,3,31,96,99,1023,0}; the check must report iff the exact NL evaluation says violated, and a separate run with sol:chk:fail must end with solve_result 150 iff violated.',
            'points are exact or violate by a clear margin; in the tolerance configuration only lines about original items are judged at within-tolerance points; points on which NL model and delivered model disagree (C01/C06 defects) are skipped and counted; one known finding (recomputed-only modes miss a root logical constraint expressed through a LinearFunctionalConstraint)', '2/C07'),
    'C04': ('exploration', 'trace and history monitoring of the real driver (mpmon, ASan build): scripted solver answers and scripted pre/postsolve histories through the real ValuePresolver, judged against rows identified by content',
            'Random models (nonlinear/logical part + linear constraints with unique coefficient vectors + quadratic ranges) under four acceptance configurations receive scripted primal/dual/basis/IIS answers (exact, longer than the model, absent) and incoming sstatus/priority/lazy suffixes and initial guesses; the .sol file and every logged transfer are compared exactly with the scripted vectors through the documented mapping, value counts with the NL item counts, and every repetition of one of 7 pre/postsolve calls inside a random history of 6..14 calls with its first result.',
            'values are judged only for original variables and for purely linear constraints whose delivered row is identified uniquely by content (plus the warm-start slack of converted ranges); other constraints only for counts and history independence; variable IIS codes restricted to non/low/fix/upp', '2/C04'),
    'C20': ('exploration', 'offline monitor over the file written by cvt:writegraph and the ModelAPI trace of the same run of the real driver (mpmon, ASan build)',
            'Random models (infinite bounds, free rows, extreme coefficients, several objectives, defined variables) under native/linear-only/mixed acceptance and names off/generic/from files containing quotes, backslashes, braces and commas are converted with the graph export on; every line is parsed by a strict JSON parser, NL and delivered items are checked for presence, every created constraint for exactly one consistent final status record, every link for known item classes and in-range indices, delivered rows for being linked exactly once, and the records marked final for equality (type, order, name, variables) with the AddConstraint calls.',
            'numbers are compared to 1e-5 relative (the writer prints about 6 digits); record order in the file is not constrained; with objno/multiobj only the objectives the converter receives are required', '2/C20'),
    'C19': ('exploration', 'trace monitoring of the real driver (mpmon): names recorded at AddVariables / AddConstraint / Set*Objective judged against the documented naming rule',
            'Random models under cvt:names 0..3, name files present/absent/short/CRLF/look-alike and native/linear-only/mixed acceptance are converted by the real code; every delivered name is checked for presence, original items for the file\'s or the generic name, created items for derivation from a source item, and variables and constraints for pairwise distinct names.',
            'variables and constraints are separate name spaces; three listed known findings (derived-name collisions, look-alike file names, a nameless row from a nested indicator conversion)', '2/C19'),
    'C09': ('fault_enumeration', 'end-to-end monitoring of the real driver (mpmon) under ASan over model/option/invocation families with output-path fault injection (strace -e inject, .sol path as directory); strict independent .sol parser as oracle',
            'Valid, infeasible, unsupported, big-M-unbounded and mutated NL inputs x valid/unknown/ill-typed options x -AMPL/wantsol modes x names-file shapes x output faults are run one process each; every run must terminate without signal or sanitizer report and end either in a .sol that parses completely with the NL header\'s dimensions and a code of the right class, or in no .sol with non-zero exit status and a diagnostic; feasibility witnesses from the exact evaluator refute false "infeasible" verdicts.',
            'strace write-fault injection restricted to the .sol path (confirmed by the (INJECTED) marker); a _GLIBCXX_ASSERTIONS abort counts as a crash; infeasible-by-construction models may legitimately be passed on to the solver', '2/C09'),
    'C12': ('exploration', 'trace monitoring of the real driver (mpmon): recorded SetLinear/QuadraticObjective events judged by an exact independent evaluator through the delivered functional DAG',
            'Random models with 0-4 objectives of mixed sense and linear/quadratic/nonlinear content are run through the real option parser, NL reader and converter for objno unset/0..N+1, multiobj on/off and quadratic objectives accepted or not; the number, order and sense of the delivered objectives, their value at every point of the gridded domain, the rejection of objno > N and the objno echoed in the .sol are checked.',
            'own NL text encoder and exact (Fraction) evaluator; all flat constraint types accepted natively so that auxiliary values follow by forward evaluation; text NL input only', '2/C12'),
    'C10': ('exploration', 'exhaustive enumeration of status codes through the real driver (scripted backend in the monitor driver mpmon), judged against the documented table',
            'Every code -200..999 x presence of primal/dual/objective values is scripted into a real driver run (RunBackendApp, FlatBackend<MIPBackend>, real .sol writer); the classification predicates, the solve message, the objno line of the parsed .sol and the -! table are compared with the ranges in features-guide.rst. Exhaustive over the stated finite space.',
            'the documentation table is the specification; the .sol is parsed by our own strict parser; one fixed 3-variable LP', '2/C10'),
    'C15': ('fault_enumeration', 'schedule enumeration by hook-driven signal delivery on the real SignalHandler (one child process per schedule) + timer-driven asynchronous delivery; oracle over recorded Stop()/callback/exit observations',
            'All 1770 schedules of 1-3 SIGINT/SIGTERM deliveries over the 20 named delivery points (inside the constructor, between the stores of both SetHandler calls, inside the destructor, and at the life-cycle steps) are executed against the real code; for each, the later Stop() values, the (function,data) pairs the callbacks saw, the <BREAK> count and the exit status are judged. Asynchronous timer-driven delivery adds instruction-level delivery points between the hooks.',
            'exhaustive over the named points for <=3 signals; instruction-level points between hooks are only sampled; delivery is on the main thread', '2/C15'),
    'C16': ('exploration', 'monitoring of the real amplgsl.cc function table (built against a stand-in funcadd.h + system GSL) under ASan; derivatives judged by Ridders extrapolation of the same binding\'s values',
            'All ~340 registered functions are called with regular, integer, boundary and hostile (NaN/Inf/huge) argument vectors in value, first- and second-derivative modes with random dig masks, each twice: no error must mean non-NaN value/partials that agree with numerical differentiation (with reproduction at a neighbouring point before a disagreement counts), errors must be explicit, calls deterministic (random-valued ones after reseeding), no sanitizer report.',
            'the stand-in funcadd.h fixes the arglist layout for both sides; second partials are indexed by rows as in test/gsl-test.cc; calls exceeding 8 s inside libgsl are counted as inconclusive, not judged; libgsl is uninstrumented', '2/C16'),
    'C13': ('exploration', 'measurement monitoring: the real PLApproximate<Con> output judged by dense sampling + extremum search against long-double libm; guarded hook reports dropped breakpoints',
            'For all 17 function types, parameters, interval shapes, tolerances and integer/continuous arguments the routine the converter calls is executed and its point list measured: strict monotonicity of breakpoints, first/last breakpoint = reported domain, per-segment maximum error in the property\'s abs/rel metric, the periodic reduction at several period factors, exactness of the integer shortcut; hangs are caught by the watchdog. A second stage runs \'y = f(x)\' through the real converter (mpmon driver, f not accepted, PL constraint accepted) and decides the delivered model with z3 at sampled arguments incl. period boundaries: some y exists and every admitted y is within the requested relative tolerance of f(x).',
            'long-double libm is the reference; sampling (49 points + golden section per segment) can miss narrow spikes; violations on segments spanning breakpoints dropped by the 1e-4 spacing rule are a listed known finding (attribution is exact through the MP_VERIF_HOOKS hook)', '2/C13'),
    'C11': ('exploration', 'generator-knows-the-answer monitoring of the real BasicSolver option parser, hostile strings in exact-size heap buffers under ASan',
            'Grammar-derived assignment sequences over int/double/string/flag/wildcard options, inline and out-of-line synonyms in random case, all separator forms, quoted strings and name=? queries are distributed over mp_options, <exe>_options, <solver>_options and argv; the final value of every option, the ParseOptions result and the error-handler calls must equal what the generator assigned in the documented source order; hostile strings must terminate with at most an option error.',
            'the generator\'s bookkeeping is the reference; a recording ErrorHandler is installed so parsing continues after an error', '2/C11'),
    'C08': ('exploration', 'round-trip monitoring of the real NLModel/NLSolver code against an independent matrix-level oracle (exact dyadic arithmetic), under ASan',
            'Random LP/QP/MILP/MIQP matrix models incl. all Hessian entry shapes are written through NLModel::WriteNL / NLSolver::LoadModel, read back into mp::Problem and the recording handler and compared in the caller\'s variable order through the reported permutation (bounds, integrality by NL position, objective and row values at 24 points, warm starts, suffixes, names); a .sol with distinct values per NL position is returned through ReadSolution/Solve and must come back un-permuted with the recomputed objective value.',
            'quadratic part defined as 0.5*sum of given entries (Triangular format: symmetric reading also accepted); mp::Problem/NL reader are the observation channel (monitored separately by C02/C03)', '2/C08'),
    'C03': ('exploration', 'round-trip monitoring: real NLWriter2 -> real NL reader with the recording checker handler and a canonical-event equality oracle, under ASan',
            'Random model descriptions over every opcode, bound kind, suffix kind and adversarial doubles are fed through an NLFeeder to WriteNLFile in all 24 option/format combinations and each file is read back by ReadNLFile; the recorded notifications must equal the fed model item by item with bit-identical numbers, and all encodings of one model must be indistinguishable.',
            'operator identity is matched by name between nl-opcodes.h and expr::Kind; |bound| >= DBL_MAX is treated as the writer\'s documented infinity', '2/C03'),
    'C02': ('exploration', 'hostile-input monitoring of the real NL reader under ASan+UBSan with an online consistency checker as receiving handler, string path vs. file path differential',
            'Valid NL models over all operators from our own text/binary/byte-swapped encoders, padded to page-multiple sizes, are mutated and read through ReadNLString and ReadNLFile with and without READ_BOUNDS_FIRST into a recording handler that asserts every index/count/nesting rule against the header it received, into NullNLHandler and into mp::Problem; sanitizer reports, unlocated exceptions, inconsistent notifications, string/file differences and misreported valid models are violations.',
            'ASan/UBSan instrumentation; allocator-limit aborts for gigantic declared sizes are counted as resource exhaustion; our NL encoders define what a valid file is', '2/C02'),
    'C18': ('exploration', 'randomised differential monitoring: real mp::Equal / std::hash on factory-built trees vs. an independent shadow-tree oracle, under ASan',
            'Random expression trees over every expression kind are materialised twice through the real ExprFactory together with single-point mutants; Equal must agree with a structural comparison of the shadows (reflexive, symmetric, transitive, exact), equal trees must hash equally, and ASan/UBSan-bounds watch the comparison and hashing code.',
            'own shadow-tree comparison is the reference; UnsupportedError for symbolic numberof is a counted refusal', '2/C18'),
    'C14': ('exploration', 'hostile-input monitoring of the real SOLReader2 under ASan+UBSan with an online monitor in the SOLHandler',
            'Valid text/CRLF/binary .sol files from independent encoders are mutated (truncation, hostile counts, suffix headers, long lines, NULs) and read with declared sizes 0/smaller/equal/larger by handlers that drain all/some/none; every sanitizer report, escaped exception, undocumented return code, over-long vector offer, over-long suffix name/table or swallowed read error is a violation.',
            'ASan red zones + UBSan instrumentation (intra-object overflows only via UBSan bounds); bad_alloc/allocator-limit aborts for file-declared gigantic sizes are counted as resource exhaustion', '2/C14'),
    'C05': ('exploration', 'round-trip monitoring: real WriteSolFile -> real SOLReader2 with a field-by-field data-equality oracle, under ASan',
            'Random solutions (messages with blank/CR/boundary-length lines, options, absent/full vectors of adversarial doubles, all suffix kinds with tables) are written by the library writer and read back by the library reader; everything the handler receives is compared with what was written using the tolerances the property states, including the non-finite rejection clause.',
            'the recording SOLHandler and the comparison are ours; three known findings (0 options, vbtol form, |v|~DBL_MAX) are listed in known_findings.jsonl', '2/C05'),
    'C17': ('exploration', 'exhaustive/boundary operand enumeration of the real SafeInt templates under ASan+UBSan, judged by an __int128 reference oracle',
            'All operand pairs of the 8-bit instantiations (and, in the thorough tier, of the 16-bit ones) plus boundary/random pairs of int, long, long long, unsigned, size_t and all 10x10 constructor type pairs are executed on the real templates; every result is compared with exact 128-bit arithmetic and UBSan watches for signed overflow. Exhaustive for the small instantiations of the same template code, sampled for the wide ones.',
            'gcc __int128 arithmetic is the reference; UBSan signed-integer-overflow instrumentation', '2/C17'),
}

PENDING = 'check under construction in this session (see DESIGN.md section 2); not claimed until it is silent on the unchanged tree'


def main():
    props = [json.loads(l)['id'] for l in open(os.path.join(VERIF, 'properties.jsonl'))]
    try:
        hooks_commits = subprocess.run(['git', '-C', '/repo', 'log', '--format=%H', '--grep=^hooks:'], capture_output=True, text=True).stdout.split()
    except Exception:
        hooks_commits = []
    m = dict(
        version=1,
        setup_cmd='./check setup',
        hooks=dict(guard='MP_VERIF_HOOKS',
                   enable='checks compile /repo sources themselves with -DMP_VERIF_HOOKS (vf/build.py DEFINES); the repo\'s own CMake build never defines it',
                   baseline_off_cmd='sh /verif/scripts/baseline_off.sh',
                   source_commits=hooks_commits, add_only=True),
        engines=[dict(name='check', path='/verif/check', serves_properties=sorted(CHECKS),
                      kind_free_text='python runner + C++ monitor harnesses compiled against /repo under gcc ASan/UBSan/TSan; offline oracles over recorded event logs')],
        checks=[], not_applicable=[],
        notes='All checks: ./check <id> [--tier quick|thorough]; VERIF_SEED/VERIF_TIER honoured; exit 0 held / 1 VIOLATION / 2 inconclusive. Known findings: known_findings.jsonl.')
    for pid in props:
        if pid in CHECKS:
            cat, tech, text, note, ref = CHECKS[pid]
            m['checks'].append(dict(
                property_id=pid, quick_cmd='./check %s --tier quick' % pid, thorough_cmd='./check %s --tier thorough' % pid,
                evidence_file='/verif/evidence/%s.json' % pid, replay_cmd_template='./check %s --replay {path}' % pid,
                engine='check', level_claimed=dict(category=cat, text=text, design_ref='DESIGN.md ' + ref), level_note=note,
                technique=tech))
        else:
            m['not_applicable'].append(dict(property_id=pid, reason=PENDING))
    with open(os.path.join(VERIF, 'MANIFEST.json'), 'w') as f:
        json.dump(m, f, indent=1)
    try:
        import jsonschema
        jsonschema.validate(m, json.load(open('/root/.vp/MANIFEST.schema.json')))
        print('MANIFEST.json valid; claimed:', ' '.join(sorted(CHECKS)))
    except ImportError:
        print('written (jsonschema not available)')


if __name__ == '__main__':
    main()
