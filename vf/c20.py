"""C20: the exported reformulation graph (cvt:writegraph) is well-formed and complete."""
import json, os, random
from . import mpmon, run, gen_nl, flat_eval

RULE = ("seeded random NL models (defined variables, nested conversions, ranges, logical constraints, several objectives, free rows, infinite bounds, "
        "extreme coefficients) x acceptance configurations {everything native, linear only, random mix} x names {off, generic, files with quotes, "
        "backslashes, brackets and commas} -> real driver with cvt:writegraph; the monitor parses every line with a strict JSON parser (no Infinity/NaN, "
        "no duplicate keys) and checks against the same run's ModelAPI trace: all NL variables/objectives/constraints/defined variables and all "
        "delivered variables/objectives are present, every created constraint has exactly one final status record with a consistent "
        "unused/bridged/final combination, every link record names known item classes with index ranges inside their sizes, the delivered target "
        "rows are covered exactly once by links, and the constraints marked final equal (type, order, name, variables) the AddConstraint calls; "
        "non-trivial = the conversion created >=3 constraints and >=3 link records; distinct = (names mode, acceptance, delivered type set)")

SHORT = {'LinConRange': '_linrange', 'LinConLE': '_linle', 'LinConEQ': '_lineq', 'LinConGE': '_linge', 'QuadConRange': '_quadrange', 'QuadConLE': '_quadle',
         'QuadConEQ': '_quadeq', 'QuadConGE': '_quadge', 'LinearFunctionalConstraint': '_linfunccon', 'QuadraticFunctionalConstraint': '_quadfunccon',
         'MaxConstraint': '_max', 'MinConstraint': '_min', 'AbsConstraint': '_abs', 'AndConstraint': '_and', 'OrConstraint': '_or',
         'CondLinConEQ': '_condlineq', 'CondLinConLE': '_condlinle', 'CondLinConLT': '_condlinlt', 'CondLinConGE': '_condlinge', 'CondLinConGT': '_condlingt',
         'CondQuadConEQ': '_condquadeq', 'CondQuadConLE': '_condquadle', 'CondQuadConLT': '_condquadlt', 'CondQuadConGE': '_condquadge', 'CondQuadConGT': '_condquadgt',
         'NotConstraint': '_not', 'DivConstraint': '_div', 'IfThenConstraint': '_ifthen', 'ImplicationConstraint': '_impl', 'AllDiffConstraint': '_alldiff',
         'NumberofConstConstraint': '_numberofconst', 'NumberofVarConstraint': '_numberofvar', 'CountConstraint': '_count', 'ExpConstraint': '_exp',
         'ExpAConstraint': '_expa', 'LogConstraint': '_log', 'LogAConstraint': '_loga', 'PowConstraint': '_pow', 'SinConstraint': '_sin', 'CosConstraint': '_cos',
         'TanConstraint': '_tan', 'AsinConstraint': '_asin', 'AcosConstraint': '_acos', 'AtanConstraint': '_atan', 'SinhConstraint': '_sinh', 'CoshConstraint': '_cosh',
         'TanhConstraint': '_tanh', 'AsinhConstraint': '_asinh', 'AcoshConstraint': '_acosh', 'AtanhConstraint': '_atanh',
         'IndicatorConstraintLinLE': '_indle', 'IndicatorConstraintLinEQ': '_indeq', 'IndicatorConstraintLinGE': '_indge',
         'IndicatorConstraintQuadLE': '_indquadle', 'IndicatorConstraintQuadEQ': '_indquadeq', 'IndicatorConstraintQuadGE': '_indquadge',
         'PLConstraint': '_pl', 'SOS1Constraint': '_sos1', 'SOS2Constraint': '_sos2', 'ComplementarityLinear': '_compl', 'ComplementarityQuadratic': '_complquad',
         'QuadraticConeConstraint': '_quadcone', 'RotatedQuadraticConeConstraint': '_rotatedquadcone', 'PowerConeConstraint': '_powercone',
         'ExponentialConeConstraint': '_expcone', 'GeometricConeConstraint': '_geomcone'}
LONG = {v: k for k, v in SHORT.items()}


def prebuild():
    mpmon.exe()


class Dup(Exception):
    pass


def _pairs(pairs):
    d = {}
    for k, v in pairs:
        if k in d:
            raise Dup(k)
        d[k] = v
    return d


def _const(s):
    raise ValueError('non-JSON constant ' + s)


def strict_lines(data):
    """-> (records, problems) where problems = [(key, text)]"""
    recs, probs = [], []
    text = data.decode('utf-8', errors='surrogateescape')
    lines = text.split('\n')
    if lines and lines[-1] == '':
        lines.pop()
    else:
        probs.append(('last-line-not-terminated', repr(lines[-1][-80:]) if lines else 'empty file'))
    for n, l in enumerate(lines):
        try:
            try:
                l.encode('utf-8')
            except UnicodeEncodeError:
                raise ValueError('invalid UTF-8')
            r = json.loads(l, object_pairs_hook=_pairs, parse_constant=_const)
            if not isinstance(r, dict):
                raise ValueError('not an object')
            recs.append(r)
        except Dup as e:
            probs.append(('line-has-duplicate-key', 'line %d key %s: %s' % (n + 1, e, l[:200])))
        except ValueError as e:
            why = 'other'
            low = l
            if any(t in low for t in ('inf', 'nan')) and _try_fix_numbers(l):
                why = 'non-finite-number'
            elif '"name"' in l or '"printed"' in l:
                why = 'string-not-escaped'
            probs.append(('line-is-not-valid-json:' + why, 'line %d: %s: %s' % (n + 1, e, l[:240])))
    return recs, probs


def _try_fix_numbers(l):
    import re
    l2 = re.sub(r'(?<![\w"])-?(inf|nan)(?![\w"])', '0', l)
    try:
        json.loads(l2)
        return True
    except ValueError:
        return False


def _ints(o, keys):
    out = []
    if isinstance(o, dict):
        for k, v in o.items():
            if k in keys and not isinstance(v, dict):
                out.append((k, v))
            else:
                out += _ints(v, keys)
    elif isinstance(o, list):
        for v in o:
            out += _ints(v, keys)
    return out


def var_fingerprint_export(d):
    """all variable-index material of an exported constraint's data, order-preserving"""
    return [v for _, v in _ints(d, ('vars', 'vars1', 'vars2', 'res_var', 'args', 'bin_var', 'compl_var'))]


def analyse(recs, tr, nl, named, finished):
    """structure checks; nl = dict(nv, nalg, nlog, nobj, ndv); -> problems, info"""
    P = []
    created, status, groups, links = {}, {}, {}, []
    var_recs, nlobj, nlcon, nlce, objrecs = {}, set(), {}, set(), {}
    for r in recs:
        if 'COMMENT' in r:
            continue
        if 'VAR_index' in r:
            var_recs.setdefault(r['VAR_index'], []).append(r)
        elif 'NL_COMMON_EXPR_index' in r:
            nlce.add(r['NL_COMMON_EXPR_index'])
        elif 'NL_OBJECTIVE_index' in r:
            nlobj.add(r['NL_OBJECTIVE_index'])
        elif 'NL_CON_TYPE' in r:
            nlcon[r.get('index')] = r
        elif 'OBJECTIVE_index' in r:
            objrecs.setdefault(r['OBJECTIVE_index'], []).append(r)
        elif 'link_index' in r:
            links.append(r)
        elif 'CON_TYPE' in r:
            t = r['CON_TYPE']
            if 'CON_GROUP' in r:
                groups[t] = r.get('CON_GROUP_index')
            elif 'final' in r:
                status.setdefault((t, r.get('index')), []).append(r)
            elif 'data' in r:
                created.setdefault((t, r.get('index')), []).append(r)
            else:
                P.append(('unrecognised-constraint-record', str(r)[:200]))
        else:
            P.append(('unrecognised-record', str(r)[:200]))
    info = dict(ncreated=len(created), nlinks=len(links), nstatus=len(status))
    # ---- NL items
    miss = [i for i in range(nl['nv']) if not any(x.get('is_from_nl') == 1 for x in var_recs.get(i, []))]
    if miss:
        P.append(('nl-variable-missing', 'NL variables without an is_from_nl record: %s' % miss[:8]))
    if finished or nl['started']:
        pass
    if finished:
        m = [i for i in range(nl['nobj']) if i not in nlobj]
        if m:
            P.append(('nl-objective-missing', '%s' % m[:8]))
        m = [i for i in range(nl['nalg'] + nl['nlog']) if i not in nlcon]
        if m:
            P.append(('nl-constraint-missing', '%s of %d+%d' % (m[:8], nl['nalg'], nl['nlog'])))
        for i, r in nlcon.items():
            if not isinstance(i, int) or i < 0 or i >= nl['nalg'] + nl['nlog']:
                P.append(('nl-constraint-index-out-of-range', str(r)[:160]))
            elif (r['NL_CON_TYPE'] == 'logical') != (i >= nl['nalg']):
                P.append(('nl-constraint-kind-wrong', str(r)[:160]))
        m = [i for i in range(nl['ndv']) if i not in nlce]
        if m:
            P.append(('nl-defined-variable-missing', '%s' % m[:8]))
    # ---- constraint records
    ntype = {}
    for (t, i), rs in created.items():
        if t not in LONG and t != '_uenc':
            P.append(('unknown-constraint-type-name', t))
        if len(rs) != 1:
            P.append(('constraint-created-twice', '%s[%s] x%d' % (t, i, len(rs))))
        ntype[t] = max(ntype.get(t, 0), (i if isinstance(i, int) else -1) + 1)
    for t, n in ntype.items():
        gaps = [i for i in range(n) if (t, i) not in created]
        if gaps:
            P.append(('constraint-creation-record-missing', '%s indices %s of %d' % (t, gaps[:6], n)))
    if finished:
        for key in created:
            k = len(status.get(key, []))
            if k != 1:
                P.append(('constraint-with-%s-final-status-records' % ('no' if k == 0 else 'several'), '%s[%s]: %d status records' % (key[0], key[1], k)))
        for key, rs in status.items():
            if key not in created:
                P.append(('status-record-for-unknown-constraint', '%s[%s]' % key))
            for r in rs:
                u, b, f = r.get('unused'), r.get('bridged'), r.get('final')
                if any(x not in (0, 1) for x in (u, b, f)) or (f == 1 and (b == 1 or u == 1)) or (f == 0 and b == 0 and u == 0):
                    P.append(('inconsistent-status-flags', '%s[%s] unused=%s bridged=%s final=%s' % (key[0], key[1], u, b, f)))
        for t in ntype:
            if t not in groups:
                P.append(('constraint-type-without-group-record', t))
    # ---- delivered model
    if finished:
        for j in range(tr.nvars):
            rs = var_recs.get(j)
            if not rs:
                P.append(('delivered-variable-missing', 'variable %d of %d' % (j, tr.nvars))); break
            last = rs[-1]
            b = last.get('bounds')
            def clamp(v):
                return max(-1.7976931348623157e308, min(1.7976931348623157e308, v))
            if not (isinstance(b, list) and len(b) == 2 and _close(b[0], clamp(tr.lb[j])) and _close(b[1], clamp(tr.ub[j])) and last.get('type') == tr.type[j]):
                P.append(('delivered-variable-record-differs', 'var %d: exported %s type %s, delivered [%r, %r] type %s' % (j, b, last.get('type'), tr.lb[j], tr.ub[j], tr.type[j]))); break
            if named and tr.names[j] and last.get('name') != tr.names[j]:
                P.append(('delivered-variable-name-differs', 'var %d: exported %r delivered %r' % (j, last.get('name'), tr.names[j]))); break
        extra = [j for j in var_recs if not isinstance(j, int) or j < 0 or j >= tr.nvars]
        if extra:
            P.append(('variable-record-out-of-range', '%s (delivered %d)' % (extra[:6], tr.nvars)))
        for o in tr.objs:
            rs = objrecs.get(o['i'])
            if not rs:
                P.append(('delivered-objective-missing', 'objective %d' % o['i'])); continue
            last = rs[-1]
            lt = last.get('lin_terms', {})
            if last.get('sense') != o['sense'] or lt.get('vars') != o['lin']['v'] or not _closev(lt.get('coefs'), o['lin']['c']):
                P.append(('delivered-objective-record-differs', 'objective %d: exported %s delivered %s' % (o['i'], str(last)[:200], str(o)[:200])))
        # delivered constraints == final=1 records
        fin = {}
        for (t, i), rs in status.items():
            if rs and rs[-1].get('final') == 1:
                fin.setdefault(t, []).append(i)
        dele = {}
        for c in tr.cons:
            dele.setdefault(SHORT.get(c['type'], c['type']), []).append(c)
        for t in sorted(set(fin) | set(dele)):
            a, b = sorted(fin.get(t, [])), dele.get(t, [])
            if len(a) != len(b):
                P.append(('final-set-differs-from-delivered', '%s: %d marked final, %d AddConstraint calls' % (t, len(a), len(b)))); continue
            for i, c in zip(a, b):
                cr = created.get((t, i), [None])[0]
                st = status[(t, i)][-1]
                if named and (c['name'] or st.get('name')) and st.get('name', '') != c['name']:
                    P.append(('final-constraint-name-differs', '%s[%d]: exported %r delivered %r' % (t, i, st.get('name'), c['name']))); break
                if cr is not None:
                    fe = var_fingerprint_export(cr['data'])
                    ft = [v for _, v in _ints(c['data'], ('v', 'v1', 'v2', 'res', 'args', 'b', 'var', 'vars'))]
                    if sorted(_flat(fe)) != sorted(_flat(ft)):
                        P.append(('final-constraint-content-differs', '%s[%d]: exported %s delivered %s' % (t, i, str(cr['data'])[:160], str(c['data'])[:160]))); break
    # ---- links
    if finished:
        ngroup = {}
        for c in tr.cons:
            ngroup[c['group']] = ngroup.get(c['group'], 0) + 1
        sizes = {'src_vars()': nl['nv'], 'src_cons()': nl['nalg'] + nl['nlog'], 'src_objs()': nl['nobj'],
                 'dest_vars()': tr.nvars, 'dest_objs()': max([o['i'] + 1 for o in tr.objs] or [0])}
        for g, n in ngroup.items():
            sizes['dest_cons(%d)' % g] = n
        for t, n in ntype.items():
            sizes[t] = n
        cover = {}
        seen_idx = set()
        for r in links:
            li = r.get('link_index')
            if not (isinstance(li, list) and len(li) == 2 and all(isinstance(x, int) and x >= 0 for x in li)) or not isinstance(r.get('link_type'), str):
                P.append(('malformed-link-record', str(r)[:200])); continue
            if tuple(li) in seen_idx:
                P.append(('link-entry-exported-twice', str(li)))
            seen_idx.add(tuple(li))
            for side in ('src_nodes', 'dest_nodes'):
                nodes = r.get(side)
                if not isinstance(nodes, list) or not nodes:
                    P.append(('link-without-%s' % side, str(r)[:200])); continue
                for nd in nodes:
                    if not isinstance(nd, dict) or len(nd) != 1:
                        P.append(('malformed-link-node', str(r)[:200])); continue
                    (nm, rng), = nd.items()
                    if isinstance(rng, int):
                        lo = hi = rng
                    elif isinstance(rng, list) and len(rng) == 2 and all(isinstance(x, int) for x in rng):
                        lo, hi = rng
                    else:
                        P.append(('malformed-link-node', str(r)[:200])); continue
                    if nm not in sizes:
                        if nm.startswith('dest_cons(') or nm in LONG or nm == '_uenc':
                            sizes[nm] = 0
                        else:
                            P.append(('link-names-unknown-item-class', '%s in %s' % (nm, str(r)[:160]))); continue
                    if lo > hi:
                        if not (lo == hi + 1):     # an empty range is written as [b, b-1]
                            P.append(('link-range-inverted', '%s %s' % (nm, rng)))
                        continue
                    if lo < 0 or hi >= sizes[nm]:
                        P.append(('link-range-outside-item-class', '%s %s but the class has %d items (%s)' % (nm, rng, sizes[nm], r.get('link_type'))))
                    if side == 'dest_nodes' and nm.startswith('dest_cons('):
                        for i in range(lo, hi + 1):
                            cover[(nm, i)] = cover.get((nm, i), 0) + 1
        for g, n in ngroup.items():
            nm = 'dest_cons(%d)' % g
            bad = [i for i in range(n) if cover.get((nm, i), 0) != 1]
            if bad:
                P.append(('delivered-row-not-linked-exactly-once', '%s rows %s (counts %s)' % (nm, bad[:6], [cover.get((nm, i), 0) for i in bad[:6]])))
    return P, info


def _flat(l):
    out = []
    for v in l:
        if isinstance(v, list):
            out += _flat(v)
        elif isinstance(v, int):
            out.append(v)
    return out


def _close(a, b):
    try:
        a, b = float(a), float(b)
    except (TypeError, ValueError):
        return False
    return a == b or abs(a - b) <= 1e-5 * max(abs(a), abs(b))


def _closev(a, b):
    return isinstance(a, list) and len(a) == len(b) and all(_close(x, flat_eval.num(y)) for x, y in zip(a, b))


NAME_ALPH = ['x', 'y', "z['a',%d]", 'w["q%d"]', "u['5\"',%d]", 'p[\'a\\b\',%d]', "v['{k}',%d]", 'cost[%d,"N\\S"]', 'gr\u00f6\u00dfe%d', 'prix["caf\u00e9",%d]', 'co\u00fbt_\u20ac%d']


def main(tier, seed):
    ctx = run.Ctx('C20', tier, seed)
    exe = mpmon.exe()
    wd = ctx.workdir()
    ncases = ctx.n(8000, 200000)

    def one(k):
        rng = random.Random('%d/%d' % (seed, k))
        m = gen_nl.G(rng, dict(nobjs=(0, 2), ndv=(0, 2))).model()
        hostile = rng.random() < 0.35
        if hostile:
            import math
            from fractions import Fraction as Fr
            for v in m.vars:
                if v['type'] == 'c' and rng.random() < 0.5:
                    w = rng.randrange(3)
                    if w != 0:
                        v['lb'] = -math.inf
                    if w != 1:
                        v['ub'] = math.inf
            if m.cons and rng.random() < 0.5:
                c = rng.choice(m.cons); c['lb'], c['ub'] = -math.inf, math.inf      # free row
            for c in m.cons + m.objs:
                for j in list(c['lin']):
                    if rng.random() < 0.2:
                        c['lin'][j] = Fr(rng.choice([10 ** 30, 2 ** 100, 1]), rng.choice([1, 10 ** 30, 2 ** 100])) * rng.choice([1, -1])
        nv, nalg, nlog, nobj, ndv = len(m.vars), len(m.cons), len(m.lcons), len(m.objs), len(m.dvars)
        nmode = rng.choice(['off', 'generic', 'files', 'files', 'escape', 'escape'])
        col = row = None
        if nmode in ('files', 'escape'):
            alph = NAME_ALPH if nmode == 'escape' else NAME_ALPH[:3]
            def mk(i):
                t = rng.choice(alph)
                return (t % i) if '%d' in t else t + str(i)
            cn = [mk(i) for i in range(nv + ndv)]
            rn = ['c' + mk(i) for i in range(nalg + nlog + nobj)]
            col = '\n'.join(cn) + '\n'; row = '\n'.join(rn) + '\n'
        accsel = rng.randrange(3)
        acc = [{'*': 2}, {'*': 0, 'LinConLE': 2, 'LinConEQ': 2, 'LinConGE': 2}, None][accsel]
        if acc is None:
            acc = {'*': rng.choice([0, 2]), 'LinConLE': 2, 'LinConEQ': 2, 'LinConGE': 2}
            for t in rng.sample(['LinConRange', 'QuadConLE', 'QuadConRange', 'QuadConEQ', 'QuadConGE', 'IndicatorConstraintLinLE', 'IndicatorConstraintLinGE', 'IndicatorConstraintLinEQ',
                                 'MaxConstraint', 'MinConstraint', 'AbsConstraint', 'AndConstraint', 'OrConstraint', 'PLConstraint', 'SOS2Constraint', 'CountConstraint',
                                 'IfThenConstraint', 'NotConstraint', 'DivConstraint', 'LinearFunctionalConstraint', 'CondLinConLE', 'CondLinConEQ', 'NumberofConstConstraint',
                                 'AllDiffConstraint', 'PowConstraint'], rng.randrange(1, 10)):
                acc[t] = rng.choice([0, 1, 2])
        gfile = os.path.join(wd, 'g%d.jsonl' % k)
        multiobj = rng.random() < 0.3
        opts = ['cvt:writegraph=' + gfile, 'cvt:names=%d' % {'off': 0, 'generic': 3, 'files': 2, 'escape': 2}[nmode]]
        if rng.random() < 0.2:
            opts.append('cvt:pre:all=0')
        if multiobj:
            opts.append('multiobj=1')
        flags = {'quadobj': rng.choice([0, 1])}
        if os.path.exists(gfile):
            os.unlink(gfile)
        r = mpmon.run_case(exe, wd, 'g%d' % k, m.to_nl(), opts=opts, acc=acc, flags=flags, timeout=120, col=col, row=row)
        tr = flat_eval.Trace(r['trace'])
        res = []
        info = dict(nmode=nmode, acc=accsel, hostile=hostile, types=sorted(set(c['type'] for c in tr.cons)), delivered=tr.finished, ncreated=0, nlinks=0, lines=0, file=False)
        death = run.classify_death(r)
        if death and death[0] not in ('exit:1',):
            res.append(('%s:%s' % (death[0], death[1]), 'driver died: ' + death[2][-300:]))
        if os.path.isfile(gfile):
            data = open(gfile, 'rb').read()
            info['file'] = True
            recs, probs = strict_lines(data)
            info['lines'] = len(recs) + len([p for p in probs if p[0].startswith('line')])
            res += probs
            if not any(p[0].startswith('line') for p in probs):
                P, inf2 = analyse(recs, tr, dict(nv=nv, nalg=nalg, nlog=nlog, nobj=(nobj if multiobj else min(nobj, 1)), ndv=ndv, started=True), nmode != 'off', tr.finished)
                info.update(inf2)
                res += P
        elif tr.finished:
            res.append(('no-graph-file-written', 'conversion finished but %s does not exist' % gfile))
        if not res:
            for p in [gfile] + [r['base'] + e for e in ('.nl', '.sol', '.trace', '.col', '.row')]:
                try:
                    os.unlink(p)
                except OSError:
                    pass
        return k, res, info

    for k, res, info in run.pmap_proc(one, range(ncases), chunk=4):
        ctx.count('%s|%d|%s' % (info['nmode'], info['acc'], ','.join(info['types'])[:90]), nontrivial=info['file'] and info['ncreated'] >= 3 and info['nlinks'] >= 3)
        ctx.bump('json_lines_parsed', info['lines'])
        ctx.bump('constraint_records', info['ncreated'])
        ctx.bump('link_records', info['nlinks'])
        ctx.bump('runs_with_finished_conversion', 1 if info['delivered'] else 0)
        if info['ncreated'] >= 12:
            ctx.sample(dict(case=k, names=info['nmode'], lines=info['lines'], constraints=info['ncreated'], links=info['nlinks'], delivered_types=info['types']), cap=5)
        seen = set()
        for key, text in res:
            if key in seen:
                continue
            seen.add(key)
            ctx.violation(key, '%s (case %d names %s acc %d)' % (text[:400], k, info['nmode'], info['acc']), dict(case=k, seed=seed, info=info))
    ctx.assumptions += ['record order inside the file is not constrained (links are exported lazily)',
                        'numbers are compared with relative tolerance 1e-5 (the writer prints about 6 significant digits); only finiteness and JSON syntax are required of them',
                        'an empty index range may be written as [b, b-1]']
    return ctx.finish(RULE, floor=40)


def replay(path):
    print(open(path).read()); return 0
