"""C18: mp::Equal is a structural equivalence consistent with std::hash<mp::Expr>."""
import json
from . import build, run

RULE = ("random shadow trees over all expression kinds (depth<=5), each materialised twice through the real ExprFactory plus up to 4 "
        "single-point mutants (constant/index/operator/arity/argument order/string/function/PL data); oracle = own structural "
        "comparison of the shadows; evaluations = harness cases (each --trees trees); non-trivial case = contained >=1 tree of >=3 nodes "
        "and >=1 mutant; distinct = distinct (sorted expression-kind set) signatures")


def builds():
    return dict(asan=build.build('asan', 'expr_eq_mon', ['expr_eq_mon.cc']))


def prebuild():
    builds()


def main(tier, seed):
    ctx = run.Ctx('C18', tier, seed)
    exe = builds()['asan']
    tot = dict(pairs=0, eq_true=0, eq_false=0, refused=0, nodes=0)
    kinds, muts, refused = set(), set(), set()

    def on_line(j):
        for k in tot:
            tot[k] += j[k]
        kinds.update(j['kinds']); muts.update(j['mutations']); refused.update(j['refused_root_kinds'])
        ctx.count(','.join(sorted(j['kinds'])), nontrivial=j['nontrivial'] > 0 and bool(j['mutations']))
        if j['sample']:
            ctx.sample(dict(case=j['case'], tree=j['sample'][:600]), cap=4)
        for cls, (cnt, ex) in j['classes'].items():
            ctx.violation(cls, ex[:500], dict(case=j['case'], count=cnt, example=ex,
                                              cmd='expr_eq_mon --seed %d --from %d --to %d' % (seed, j['case'], j['case'] + 1)))

    def on_death(case, d, cmd):
        kind, top, exc = d
        if kind == 'harness-failure':
            ctx.inconcl('harness failure: ' + exc[-300:]); return
        ctx.violation('%s:%s' % (kind, top), 'Equal/hash died on a factory-built expression: %s in %s' % (kind, top), dict(cmd=cmd, report=exc))

    ncase = ctx.n(6000, 150000)
    run.run_sharded(exe, ['--trees', '40'], ncase, on_line, on_death, seed, timeout_per_case=5)
    ctx.extras.update(comparisons=tot['pairs'], equal_true=tot['eq_true'], equal_false=tot['eq_false'],
                      refused_by_UnsupportedError=tot['refused'], refused_root_kinds=sorted(refused),
                      tree_nodes=tot['nodes'], expression_kinds_seen=sorted(kinds), n_kinds_seen=len(kinds),
                      mutation_types_seen=sorted(muts), sanitizers='ASan + bounds/… UBSan subset + _GLIBCXX_ASSERTIONS')
    ctx.assumptions += ['both copies are built in one ExprFactory (function identity is per factory)',
                        'an UnsupportedError thrown by Equal/hash (symbolic numberof) is a diagnosed refusal, counted, not judged',
                        'constants are "the same" iff IEEE-equal or both NaN']
    return ctx.finish(RULE, floor=50)


def replay(path):
    print(open(path).read()); return 0
