"""C09: a driver run always ends in a well-formed result or a diagnosed failure."""
import os, random, re, shutil, math
from fractions import Fraction as Fr
from . import mpmon, run, solfile, gen_nl, nltext

RULE = ("end-to-end runs of the monitor driver (real RunBackendApp, option parser, NL reader, converter, .sol writer) on: random valid models x "
        "random acceptance configurations; models infeasible by bounds or fixed logic; unsupported operators (floor, mod, trig under linear-only "
        "acceptance, variable exponent, !alldiff); unbounded variables in products/indicators (big-M); hostile mutants of the NL text; x option "
        "strings (valid, unknown, ill-typed) x {-AMPL, wantsol=0..15} x names files {absent, exact, short, long, CRLF, empty lines, no final "
        "newline} x output faults (.sol path is a directory; strace-injected ENOSPC on the k-th write); one process per case; oracle: terminates, "
        "no signal / sanitizer report, a complete .sol with the NL header's dimensions or (if none could be written) non-zero exit + stderr text; "
        "constructed classes must get codes 200-299 resp. 500-999 with a message; non-trivial = the NL header was read; distinct = distinct "
        "(family, invocation mode, outcome class, names mode) signatures")

FAMS = ['valid', 'valid', 'valid', 'infeasible-bounds', 'infeasible-logic', 'unsupported', 'bigm-unbounded', 'nl-mutant', 'nl-mutant', 'bad-options', 'names', 'names', 'outfault-dir', 'outfault-enospc', 'option-file']


def mutate_nl(rng, text):
    lines = text.split('\n')
    toks = ['-1', '0', '1', '2', '9', '83', '100', '65536', '2147483647', '2147483648', '99999999999999999999', '1e30', 'nan', 'inf', 'x', '', '0x10', '1.5', '-0']
    how = rng.choice(['truncate', 'delline', 'dupline', 'token', 'token', 'header', 'letter', 'garbage'])
    if how == 'truncate':
        return text[:rng.randrange(max(1, len(text)))], how
    i = rng.randrange(len(lines))
    if how == 'delline':
        del lines[i]
    elif how == 'dupline':
        lines.insert(i, lines[i])
    elif how == 'token':
        i = rng.randrange(min(10, len(lines) - 1), len(lines)) if len(lines) > 11 else i
        parts = re.split(r'(\s+)', lines[i]); idx = [k for k, p in enumerate(parts) if re.search(r'\d', p)]
        if idx:
            k = rng.choice(idx); m = re.match(r'([A-Za-z]*)(.*)', parts[k]); parts[k] = m.group(1) + rng.choice(toks); lines[i] = ''.join(parts)
    elif how == 'header':
        i = rng.randrange(1, min(10, len(lines))); parts = lines[i].split()
        if parts:
            parts[rng.randrange(len(parts))] = rng.choice(toks); lines[i] = ' ' + ' '.join(parts)
    elif how == 'letter':
        if lines[i]:
            lines[i] = rng.choice('FSVCLOdxrbkKJGonvfhz5') + lines[i][1:]
    else:
        lines.insert(i, ''.join(chr(rng.randrange(1, 255)) for _ in range(rng.randrange(1, 30))))
    return '\n'.join(lines), how


def header_dims(text):
    try:
        p = text.split('\n')[1].split()
        return int(p[0]), int(p[1])
    except Exception:
        return None


def build_case(rng, fam):
    """Returns dict(nl, opts, ampl, col,row, expect: None|'infeasible'|'failure', names_mode, pre(workdir, base)->None, wrap)"""
    c = dict(opts=[], ampl=True, col=None, row=None, expect=None, names_mode='absent', acc=None, sub='')
    g = gen_nl.G(rng, dict(nobjs=(0, 2)))
    m = g.model()
    if fam in ('valid', 'names', 'bad-options', 'outfault-dir', 'outfault-enospc', 'option-file'):
        pass
    elif fam == 'infeasible-bounds':
        j = rng.randrange(len(m.vars)); v = m.vars[j]
        if rng.random() < 0.5:
            v['lb'], v['ub'] = v['ub'] + 1, v['lb']            # lb > ub
            c['sub'] = 'var-lb>ub'
        else:
            m.cons.append(dict(expr=None, lin={j: Fr(1)}, lb=v['ub'] + 2, ub=v['ub'] + 3)); c['sub'] = 'row-outside-var-bounds'
        c['expect'] = 'infeasible'
    elif fam == 'infeasible-logic':
        j = rng.randrange(len(m.vars)); v = m.vars[j]
        kind = rng.randrange(3)
        if kind == 0:
            m.lcons.append(('gt', ('v', j), ('n', v['ub'] + 1))); c['sub'] = 'x>ub+1'
        elif kind == 1:
            m.lcons.append(('and', ('ge', ('v', j), ('n', v['lb'])), ('F',))); c['sub'] = 'and-false'
        else:
            m.lcons.append(('not', ('le', ('v', j), ('n', v['ub'] + 1)))); c['sub'] = 'not-always-true'
        c['expect'] = 'infeasible'
    elif fam == 'unsupported':
        kind = rng.randrange(5); j = rng.randrange(len(m.vars))
        e = [('floor', ('v', j)), ('mod', ('v', j), ('n', Fr(3))), ('pow', ('n', Fr(2)), ('pow', ('v', j), ('v', (j + 1) % len(m.vars)))),
             ('pow', ('v', j), ('v', (j + 1) % len(m.vars))), ('trunc', ('v', j), ('n', Fr(0)))][kind]
        m.cons.append(dict(expr=e, lin={}, lb=Fr(0), ub=Fr(5))); c['sub'] = e[0]
        c['expect'] = 'failure'
    elif fam == 'bigm-unbounded':
        # an unbounded variable inside an implication / product needs bounds the converter does not have
        m.vars.insert(0, dict(lb=-math.inf, ub=math.inf, type='c'))
        for cc in m.cons:
            cc['lin'] = {j + 1: v for j, v in cc['lin'].items()}
        for o in m.objs:
            o['lin'] = {j + 1: v for j, v in o['lin'].items()}
        m.cons, m.lcons, m.objs, m.dvars = [], [], [], []
        b = len(m.vars) - 1
        m.lcons.append(('implies', ('ge', ('v', 1 if len(m.vars) > 1 else 0), ('n', Fr(1))), ('le', ('v', 0), ('n', Fr(3))), ('T',)))
        c['acc'] = {'*': 0, 'LinConLE': 2, 'LinConEQ': 2, 'LinConGE': 2, 'LinConRange': 2}
        c['expect'] = 'failure-or-ok'; c['sub'] = 'implication-on-free-var'
    if fam in ('valid', 'names'):
        # a witness of feasibility (grid search with the exact evaluator) makes an "infeasible" verdict refutable
        for pnt in gen_nl.grid_points(m, rng, cap=300):
            try:
                if m.evaluate(pnt)['feasible']:
                    c['has_feasible_point'] = [str(t) for t in pnt]; break
            except ZeroDivisionError:
                pass
    nl = m.to_nl()
    if fam == 'nl-mutant':
        nl, how = mutate_nl(rng, nl); c['sub'] = how
        c['expect'] = 'any'
    c['nl'] = nl
    c['dims'] = header_dims(nl)
    c['nvars'], c['ncons'], c['nobjs'], c['nlcons'] = len(m.vars), len(m.cons), len(m.objs), len(m.lcons)
    if c['acc'] is None and rng.random() < 0.6:
        lvl = rng.choice([0, 0, 1, 2])
        acc = {'*': lvl}
        for t in ('LinConLE', 'LinConEQ', 'LinConGE'):
            acc[t] = 2
        for t in rng.sample(['LinConRange', 'QuadConLE', 'QuadConRange', 'QuadConEQ', 'QuadConGE', 'IndicatorConstraintLinLE', 'IndicatorConstraintLinEQ', 'IndicatorConstraintLinGE',
                             'MaxConstraint', 'MinConstraint', 'AbsConstraint', 'AndConstraint', 'OrConstraint', 'PLConstraint', 'SOS2Constraint', 'SOS1Constraint', 'PowConstraint'], rng.randrange(0, 8)):
            acc[t] = rng.choice([0, 1, 2])
        c['acc'] = acc
    # invocation mode
    if rng.random() < 0.25:
        c['ampl'] = False; c['opts'].append('wantsol=%d' % rng.randrange(16))
    if fam == 'option-file':
        # tech:optionfile: readable (comments, blank lines, CRLF, no final newline), empty, missing, a directory, junk bytes, an unknown option inside
        kind = rng.choice(['valid', 'valid', 'crlf', 'no-final-newline', 'empty', 'missing', 'directory', 'junk', 'unknown-option', 'self-reference'])
        body = ['# options for the run', '', 'cvt:pre:all=%d' % rng.randrange(2), '  # indented comment', 'cvt:mip:eps=1e-3 cvt:bigm=1e5', 'timing=%d' % rng.randrange(2)]
        rng.shuffle(body)
        text = '\n'.join(body) + '\n'
        if kind == 'crlf':
            text = text.replace('\n', '\r\n')
        elif kind == 'no-final-newline':
            text = text.rstrip('\n')
        elif kind == 'empty':
            text = ''
        elif kind == 'junk':
            text = ''.join(chr(rng.randrange(1, 256)) for _ in range(rng.randrange(1, 400)))
        elif kind == 'unknown-option':
            text += 'nosuchoption=3\n'
        elif kind == 'self-reference':
            text += 'tech:optionfile=%%BASE%%.opt\n'
        c['optfile'] = dict(kind=kind, text=text)
        c['opts'].append(rng.choice(['tech:optionfile', 'optionfile', 'option:file']) + '=%%BASE%%.opt')
        c['sub'] = kind
        if kind not in ('valid', 'crlf', 'no-final-newline', 'empty'):
            c['expect'] = 'any-diagnosed'
    if fam == 'bad-options':
        c['opts'] += rng.sample(['nosuchoption=3', 'cvt:bigm=abc', 'objno=-5', 'wantsol=99', 'cvt:pre:all=2.5x', 'timing=yes', 'version=3', 'sol:chk:mode=-1', "outlev='", '=5', 'objno=1e30'], rng.randrange(1, 3))
        c['expect'] = 'any-diagnosed'
    if fam not in ('bad-options',) and c['nobjs'] and rng.random() < 0.25:
        c['opts'].append('objno=%d' % rng.randrange(0, c['nobjs'] + 1))
        if rng.random() < 0.3:
            c['opts'].append('multiobj=1')
    if fam == 'bad-options':
        pass
    elif rng.random() < 0.4:
        c['opts'] += rng.sample(['cvt:pre:all=0', 'cvt:pre:eqresult=0', 'cvt:pre:eqbinary=0', 'cvt:mip:eps=1e-3', 'cvt:bigm=1e5', 'cvt:names=%d' % rng.randrange(4), 'cvt:quadobj=0', 'cvt:quadcon=0',
                                 'sol:chk:mode=1023', 'sol:chk:fail=1', 'timing=1', 'cvt:writegraph=%%BASE%%.jsonl', 'tech:debug=1', 'cvt:sos2=0', 'cvt:uenc:ratio=0'], rng.randrange(1, 4))
    if fam == 'names' or rng.random() < 0.15:
        nrow = c['ncons'] + c['nlcons'] + c['nobjs']
        mode = rng.choice(['exact', 'short', 'long', 'crlf', 'empty-lines', 'no-final-newline', 'empty-file', 'first-empty'])
        cn = ['x%d_%s' % (i, 'v' * rng.randrange(4)) for i in range(c['nvars'])]; rn = ['c%d' % i for i in range(nrow)]
        if mode == 'short':
            cn, rn = cn[:len(cn) // 2], rn[:len(rn) // 2]
        if mode == 'long':
            cn += ['extra1', 'extra2']; rn += ['extra']
        nlc = '\r\n' if mode == 'crlf' else '\n'
        if mode == 'empty-lines' and cn:
            cn[rng.randrange(len(cn))] = ''
        if mode == 'first-empty' and cn:
            cn[0] = ''
        col = nlc.join(cn) + (nlc if cn else ''); row = nlc.join(rn) + (nlc if rn else '')
        if mode == 'no-final-newline':
            col, row = col.rstrip('\r\n'), row.rstrip('\r\n')
        if mode == 'empty-file':
            col, row = '', ''
        c['col'], c['row'], c['names_mode'] = col, row, mode
        if 'cvt:names' not in ' '.join(c['opts']):
            c['opts'].append('cvt:names=%d' % rng.randrange(1, 4))
    return c


def judge(c, r, fam):
    """Returns list of (key, text), outcome class."""
    res = []
    out = r['out'].decode('utf-8', 'replace'); err = r['err'].decode('utf-8', 'replace')
    death = run.classify_death(r)
    if r['timed_out']:
        return [('hang:' + fam + (':' + c['sub'] if c['sub'] else ''), 'no termination within the watchdog')], 'hang'
    if death and (death[0].startswith('asan') or death[0].startswith('ubsan') or death[0].startswith('glibcxx') or death[0].startswith('signal')):
        return [('%s:%s' % (death[0], death[1]), 'driver died (%s%s): %s' % (fam, ':' + c['sub'] if c['sub'] else '', death[2][-400:]))], 'crash'
    ws = [int(o.split('=')[1]) for o in c['opts'] if re.fullmatch(r'wantsol=\d+', o) and int(o.split('=')[1]) <= 15]
    wants_file = c['ampl'] or (bool(ws) and ws[-1] & 1 == 1)
    sol = None
    if r['sol'] is not None:
        try:
            sol = solfile.parse(r['sol'])
        except solfile.SolError as e:
            res.append(('malformed-or-truncated-sol:' + fam, '%s; first bytes %r' % (e, r['sol'][:120])))
            return res, 'malformed-sol'
    if sol is None:
        if wants_file or fam.startswith('outfault'):
            # no result file: must be a diagnosed failure on stderr with non-zero exit status
            if r['rc'] == 0:
                res.append(('no-sol-but-exit-status-0:' + fam, 'stdout %r stderr %r' % (out[-200:], err[-200:])))
            elif not (err.strip() or out.strip()):
                res.append(('no-sol-and-no-diagnostic:' + fam, 'rc=%s' % r['rc']))
            return res, 'no-sol-diagnosed' if not res else 'no-sol'
        if not (out.strip() or err.strip()):
            res.append(('no-output-at-all:' + fam, 'rc=%s' % r['rc']))
        return res, 'no-file-requested'
    # a .sol was written: dimensions and completeness
    dims = c['dims']
    # a failure raised before the NL header was read (bad options) has no dimensions to report
    if fam != 'nl-mutant' and dims and (sol['n_var'], sol['n_con']) != dims and not (sol['code'] >= 500 and (sol['n_var'], sol['n_con']) == (0, 0)):
        res.append(('sol-dimensions-differ-from-nl-header:' + fam, '%s vs header %s' % ((sol['n_var'], sol['n_con']), dims)))
    code = sol['code']
    if not sol['message'].strip():
        res.append(('empty-solve-message:' + fam, 'code %s' % code))
    cls = 'solved' if 0 <= code < 100 else 'infeasible' if 200 <= code < 300 else 'failure' if 500 <= code < 1000 else 'other%d' % (code // 100)
    if c['expect'] == 'infeasible':
        # the converter need not prove infeasibility (the solver would); what it reports must be one of the documented classes
        cls = 'infeasible-reported' if 200 <= code < 300 else 'failure-reported' if code >= 500 else 'passed-on-to-solver'
    approx = 'approximated' in sol['message']      # an announced piecewise-linear approximation may legitimately lose a feasible point
    if c.get('has_feasible_point') and 200 <= code < 300 and not approx:
        res.append(('feasible-model-reported-infeasible', 'code %d message %r; feasible point %s' % (code, sol['message'][:160], c['has_feasible_point'])))
    if c['expect'] == 'failure' and not (500 <= code < 1000):
        res.append(('unsupported-construct-not-reported-as-failure:%s' % c['sub'], 'code %d message %r' % (code, sol['message'][:160])))
    if c['expect'] in ('any', 'any-diagnosed') and re.search(r'unsupported|Unknown option|Invalid value|doesn\'t accept|expected|error', sol['message']) and 0 <= code < 200:
        res.append(('failure-reported-with-solved-class-code', 'code %d message %r' % (code, sol['message'][:160])))
    if re.search(r'Model infeasible', sol['message']) and not (200 <= code < 300):
        res.append(('proven-infeasibility-reported-with-wrong-class-code', 'code %d message %r' % (code, sol['message'][:200])))
    if c.get('has_feasible_point') and re.search(r'Model infeasible', sol['message']) and not approx:
        res.append(('feasible-model-reported-infeasible', 'code %d message %r; feasible point %s' % (code, sol['message'][:160], c['has_feasible_point'])))
    if re.search(r'unsupported:|not implemented', sol['message']) and not (500 <= code < 1000):
        res.append(('failure-reported-with-solved-class-code', 'code %d message %r' % (code, sol['message'][:160])))
    return res, cls


def prebuild():
    mpmon.exe()


def main(tier, seed):
    ctx = run.Ctx('C09', tier, seed, level='fault_enumeration')
    exe = mpmon.exe()
    wd = ctx.workdir()
    ncases = ctx.n(1600, 40000)
    have_strace = shutil.which('strace') is not None

    def one(k):
        rng = random.Random('%d/%d' % (seed, k))
        fam = FAMS[k % len(FAMS)]
        if fam == 'outfault-enospc' and not have_strace:
            fam = 'outfault-dir'
        c = build_case(rng, fam)
        stub = 'd%d' % k
        base = os.path.join(wd, stub)
        opts = [o.replace('%%BASE%%', base) for o in c['opts']]
        for p in (base + '.sol',):
            if os.path.isdir(p):
                shutil.rmtree(p)
        extra = {}
        injected = None
        of = c.get('optfile')
        if of:
            pth = base + '.opt'
            if os.path.isdir(pth):
                shutil.rmtree(pth)
            elif os.path.exists(pth):
                os.unlink(pth)
            if of['kind'] == 'directory':
                os.makedirs(pth)
            elif of['kind'] != 'missing':
                with open(pth, 'w', encoding='latin-1', newline='') as f:
                    f.write(of['text'].replace('%%BASE%%', base))
        if fam == 'outfault-dir':
            os.makedirs(base + '.sol', exist_ok=True); c['ampl'] = True
            r = mpmon.run_case(exe, wd, stub, c['nl'], opts=opts, acc=c['acc'], ampl=True, timeout=120, col=c['col'], row=c['row'])
            r['sol'] = None
            shutil.rmtree(base + '.sol', ignore_errors=True)
        elif fam == 'outfault-enospc':
            c['ampl'] = True
            # fault-free run first to learn the number of write calls, then inject on the k-th
            r0 = mpmon.run_case(exe, wd, stub, c['nl'], opts=opts, acc=c['acc'], ampl=True, timeout=120, col=c['col'], row=c['row'])
            kth = rng.randrange(1, 6)
            for ext in ('.sol', '.trace'):
                if os.path.exists(base + ext):
                    os.unlink(base + ext)
            kth = rng.choice([1, 1, 1, 2])
            # -P: only system calls on the .sol file are traced, hence injected (stderr stays usable for the diagnostic)
            cmd = ['strace', '-f', '-o', base + '.strace', '-P', base + '.sol', '-e', 'trace=write,writev', '-e', 'inject=write,writev:error=ENOSPC:when=%d+' % kth, exe, base, '-AMPL'] + opts
            env = dict(r0['env'])
            r = run.run_proc(cmd, 180, env=env, cwd=wd)
            r.update(sol=open(base + '.sol', 'rb').read() if os.path.exists(base + '.sol') else None, trace=[], base=base)
            try:
                injected = '(INJECTED)' in open(base + '.strace', errors='replace').read()
                os.unlink(base + '.strace')
            except OSError:
                injected = False
            if r['sol'] is not None and len(r['sol']) == 0:
                r['sol_empty'] = True
        else:
            r = mpmon.run_case(exe, wd, stub, c['nl'], opts=opts, acc=c['acc'], ampl=c['ampl'], timeout=120, col=c['col'], row=c['row'])
        res, cls = judge(c, r, fam)
        if fam == 'outfault-enospc' and injected and r.get('sol') is not None and not res:
            # writes failed from the k-th on: a complete, parsable .sol cannot honestly exist unless everything fit before the k-th write
            pass
        header_read = any(t.get('ev') in ('init', 'vars') for t in r.get('trace', [])) or (r.get('sol') is not None)
        info = dict(fam=fam, sub=c['sub'], ampl=c['ampl'], names=c['names_mode'], cls=cls, rc=r['rc'], opts=opts, injected=injected)
        for ext in ('.nl', '.sol', '.trace', '.col', '.row', '.jsonl', '.opt'):
            try:
                os.unlink(base + ext)
            except OSError:
                if os.path.isdir(base + ext):
                    shutil.rmtree(base + ext, ignore_errors=True)
        witness = dict(nl=c['nl'][:6000], opts=opts, acc=c['acc'], ampl=c['ampl'], col=c['col'], row=c['row']) if res else None
        return k, res, info, header_read, witness

    outcomes = {}
    for k, res, info, header_read, witness in run.pmap(one, range(ncases)):
        ctx.count('%s|%s|%s|%s' % (info['fam'], info['ampl'], info['cls'], info['names']), nontrivial=header_read)
        key = '%s -> %s' % (info['fam'], info['cls']); outcomes[key] = outcomes.get(key, 0) + 1
        if info['injected']:
            ctx.bump('enospc_injections_confirmed_by_strace')
        if info['fam'] in ('infeasible-logic', 'unsupported', 'nl-mutant', 'outfault-dir') and len(ctx.samples) < 5 and k % 7 == 0:
            ctx.sample(dict(case=k, family=info['fam'], detail=info['sub'], options=info['opts'], ampl_flag=info['ampl'], outcome=info['cls'], exit_status=info['rc']))
        for keyv, text in res:
            ctx.violation(keyv, '%s (case %d, %s/%s, opts %s)' % (text[:400], k, info['fam'], info['sub'], info['opts']), dict(case=k, seed=seed, info=info, witness=witness))
    ctx.extras.update(outcomes=outcomes, sanitizers='ASan + UBSan(bounds,...) + _GLIBCXX_ASSERTIONS on the whole driver')
    ctx.assumptions += ['without -AMPL and with an even wantsol no .sol is requested; then only termination, absence of crashes and some output are required',
                        'a refusal ("unsupported"/"not implemented" with a 500-999 code) is an acceptable answer for an infeasible-by-construction model',
                        'an abort raised by _GLIBCXX_ASSERTIONS (out-of-range vector index) counts as a crash: the release build reads out of bounds there']
    return ctx.finish(RULE, floor=30)


def replay(path):
    print(open(path).read()); return 0
