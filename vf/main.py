import importlib, os, sys, traceback


def main(argv):
    if not argv:
        print('usage: check <Cxx>|setup [--tier quick|thorough] [--seed N] [--replay PATH]')
        return 2
    what = argv[0]
    tier = os.environ.get('VERIF_TIER', 'quick')
    seed = int(os.environ.get('VERIF_SEED', '1') or 1)
    replay = None
    i = 1
    while i < len(argv):
        if argv[i] == '--tier':
            tier = argv[i + 1]; i += 2
        elif argv[i] == '--seed':
            seed = int(argv[i + 1]); i += 2
        elif argv[i] == '--replay':
            replay = argv[i + 1]; i += 2
        else:
            i += 1
    if tier not in ('quick', 'thorough'):
        tier = 'quick'
    try:
        if what == 'setup':
            from . import setup
            return setup.main()
        mod = importlib.import_module('vf.' + what.lower())
        if replay:
            return mod.replay(replay)
        return mod.main(tier, seed)
    except SystemExit:
        raise
    except BaseException:
        traceback.print_exc()
        print('INCONCLUSIVE property=%s: harness failure (see traceback)' % what)
        return 2


if __name__ == '__main__':
    sys.exit(main(sys.argv[1:]))
