"""C05: a .sol written by mp::WriteSolFile is read back by SOLReader2 as the same solution."""
from . import build, run

RULE = ("seeded random solutions (message lines incl. blank/CR/boundary-length lines and backspaces, 0 or 3..9 options incl. vbtol flag, "
        "absent/full primal and dual vectors of adversarial doubles, objno, solve code -200..999, 0-3 int/real output suffixes of all 4 kinds "
        "with sparse values and 0-3 line tables, an input-only suffix that must not appear) -> mp::WriteSolFile -> mp::ReadSOLFile with a "
        "recording handler; oracle = field-by-field data equality with the tolerances of the property; non-trivial = solution had >=1 vector "
        "value or suffix; distinct = distinct (feature, #options, has duals, has primals, #suffixes, nonfinite) signatures")


def builds():
    return dict(asan=build.build('asan', 'sol_rt', ['sol_rt.cc'], lib=True, repo_srcs=['nl-writer2/src/nl-utils.cc']))


def prebuild():
    builds()


def main(tier, seed):
    ctx = run.Ctx('C05', tier, seed)
    exe = builds()['asan']
    wd = ctx.workdir()
    feats = {}

    def on_line(j):
        ctx.count('%s|%d|%d|%d|%d|%d' % (j['feature'], j['nopt'], j['nd'] > 0, j['np'] > 0, j['nsuf'], j['nonfinite']),
                  nontrivial=(j['nd'] + j['np'] + j['nsuf']) > 0)
        feats[j['feature']] = feats.get(j['feature'], 0) + 1
        if j['nonfinite']:
            ctx.bump('nonfinite_rejected' if j['code'] != 0 else 'nonfinite_read_back_identically')
        if not j['bad'] and j['nsuf'] > 1:
            ctx.sample(dict(case=j['case'], feature=j['feature'], options=j['nopt'], duals=j['nd'], primals=j['np'], suffixes=j['nsuf'], return_code=j['code']), cap=4)
        for b in j['bad']:
            ctx.violation(b, '%s (case %d, feature %s, rc=%d, %s %s %s)' % (b, j['case'], j['feature'], j['code'], j['emsg'], j['exc'], j['detail']),
                          dict(case=j['case'], feature=j['feature'], detail=j['detail'], sol_file_hex=j.get('hex'),
                               cmd=[exe, '--dir', wd, '--seed', str(seed), '--from', str(j['case']), '--to', str(j['case'] + 1)]))

    def on_death(case, d, cmd):
        kind, top, exc = d
        if kind == 'harness-failure':
            ctx.inconcl('harness failure: ' + exc[-300:]); return
        if kind == 'oom':
            ctx.bump('allocation_limit_aborts'); return True
        ctx.violation('%s:%s' % (kind, top), 'SOL round trip died on case %d: %s in %s' % (case, kind, top), dict(cmd=cmd, report=exc))

    run.run_sharded(exe, ['--dir', wd], ctx.n(200000, 4000000), on_line, on_death, seed, timeout_per_case=5)
    ctx.extras.update(features=feats, sanitizers='ASan + UBSan(bounds,...) + _GLIBCXX_ASSERTIONS')
    ctx.assumptions += ['a trailing CR of a message line is line-end noise (the reader accepts CRLF files)',
                        'subnormal values are compared with an absolute tolerance of 4 ulp(denorm_min)']
    return ctx.finish(RULE, floor=50)


def replay(path):
    builds()
    return run.generic_replay(path)
