"""C12: the solver receives exactly the objective(s) the user selected."""
import os, random, re
from fractions import Fraction as Fr
from . import mpmon, run, solfile, gen_nl, flat_eval

RULE = ("seeded random NL models with 0-4 objectives of mixed sense (constant, linear, quadratic and nonlinear parts: abs/min/max/if/count/PL/...) x "
        "objno in {unset, 0..N+1} x multiobj 0/1 x AcceptsQuadObj 0/1, all flat constraint types accepted natively so that every auxiliary "
        "variable is the result of a delivered functional constraint; one driver run per case; oracle: number/order/sense of the "
        "SetLinear/QuadraticObjective events, value of each delivered objective through the delivered functional DAG = exact value of the NL "
        "objective at every point of the (gridded) variable domain, objno > N rejected with an objno error and no model delivered, "
        "'objno k-1' echoed in the .sol; non-trivial = model with >=2 objectives or a nonlinear objective; distinct = distinct "
        "(#objectives, objno, multiobj, quadobj, operator-set) signatures")


def prebuild():
    mpmon.exe()


def main(tier, seed):
    ctx = run.Ctx('C12', tier, seed)
    exe = mpmon.exe()
    wd = ctx.workdir()
    ncases = ctx.n(8000, 200000)

    def one(k):
        rng = random.Random('%d/%d' % (seed, k))
        m = gen_nl.G(rng, dict(nobjs=(0, 4), ncons=(0, 2), nlcons=(0, 1), nvars=(2, 4), depth=2)).model()
        N = len(m.objs)
        objno = rng.choice([None, None] + list(range(0, N + 2)))
        multiobj = rng.random() < 0.3
        quadobj = rng.randint(0, 1)
        opts = []
        if objno is not None:
            opts.append('objno=%d' % objno)
        if multiobj:
            opts.append('multiobj=1')
        r = mpmon.run_case(exe, wd, 'm%d' % k, m.to_nl(), opts=opts, acc={'*': 2}, flags=dict(quadobj=quadobj), timeout=120)
        res = []
        death = run.classify_death(r)
        if death and death[0] not in ('exit:1', 'exit:255'):
            res.append(('%s:%s' % (death[0], death[1]), 'driver died: %s' % death[2][-300:]))
        tr = flat_eval.Trace(r['trace'])
        out = (r['out'] + r['err']).decode('utf-8', 'replace')
        sol = None
        if r['sol'] is not None:
            try:
                sol = solfile.parse(r['sol'])
            except solfile.SolError as e:
                res.append(('malformed-sol', str(e)))
        msg = (sol['message'] if sol else '') + out
        refused = sol is not None and sol['code'] >= 500 and not tr.finished
        info = dict(N=N, objno=objno, multiobj=multiobj, quadobj=quadobj, delivered=len(tr.objs), ops=sorted(gen_nl.model_ops(m)))
        if objno is not None and objno > N:
            # must be rejected with an option error mentioning objno, and no model delivered
            if tr.finished or tr.objs or tr.nvars:
                res.append(('objno-beyond-objectives-not-rejected', 'objno=%d with %d objectives: model delivered' % (objno, N)))
            if 'objno' not in msg:
                res.append(('objno-error-not-reported', msg[:200]))
            return k, res, info, False
        if refused or (sol is not None and sol['code'] >= 500):
            info['refused'] = True     # unsupported construct etc.: a diagnosed refusal is C09's business
            return k, res, info, False
        if not tr.finished:
            if sol is not None and 200 <= sol['code'] < 300:
                info['infeasible'] = True
                return k, res, info, False
            res.append(('no-model-delivered', 'rc=%s %s' % (r['rc'], msg[:200])))
            return k, res, info, False
        eff = 1 if objno is None else objno
        if multiobj and objno is None:
            want = list(range(N))
        elif multiobj and objno is not None:
            want = None     # both given: the statement does not say which wins; accept either
        else:
            want = [eff - 1] if (eff >= 1 and N >= 1) else []
        cand = [want] if want is not None else [list(range(N)), ([objno - 1] if objno >= 1 and N >= 1 else [])]
        got = tr.objs
        match = next((w for w in cand if len(w) == len(got)), None)
        if match is None:
            res.append(('wrong-number-of-objectives-delivered', 'N=%d objno=%s multiobj=%s: delivered %d' % (N, objno, multiobj, len(got))))
            return k, res, info, True
        # each delivered objective == the selected NL objective (sense and value at every grid point)
        pts = gen_nl.grid_points(m, rng, cap=ctx.n(160, 600))
        for pos, oi in enumerate(match):
            o = got[pos]; no = m.objs[oi]
            if o['i'] != pos:
                res.append(('objective-index-differs', '%d vs %d' % (o['i'], pos)))
            if int(o['sense']) != int(no['sense']):
                res.append(('objective-sense-differs', 'NL objective %d sense %d delivered %d' % (oi, no['sense'], o['sense'])))
            bad = None; checked = 0
            for p in pts:
                try:
                    ev = m.evaluate(p)
                except ZeroDivisionError:
                    continue
                x, errs = flat_eval.forward(tr, p)
                v = flat_eval.obj_value(o, x)
                if v is None or errs or isinstance(v, float):
                    continue
                checked += 1
                if v != ev['objs'][oi]:
                    bad = (p, ev['objs'][oi], v); break
            info['points_checked'] = info.get('points_checked', 0) + checked
            if bad:
                res.append(('delivered-objective-differs-from-selected-NL-objective', 'objective %d at x=%s: NL %s delivered %s' % (oi, [str(t) for t in bad[0]], bad[1], bad[2])))
        if sol is not None:
            want_echo = (eff if (N >= 1 and eff >= 1) else 0) - 1
            if multiobj and objno is None:
                want_echo = 0 if N else -1
            if want is not None and sol['objno'] != want_echo:
                res.append(('sol-objno-echo-differs', 'used objno %s, .sol says objno %d' % (eff, sol['objno'])))
            # whatever the precedence between objno and multiobj: the echoed number is "the one that was used"
            if (sol['objno'] == -1) != (len(got) == 0):
                res.append(('sol-objno-echo-inconsistent-with-delivered-objectives', '%d objective(s) delivered, .sol says objno %d (-1 = none used)' % (len(got), sol['objno'])))
            elif sol['objno'] >= 0 and sol['objno'] not in match:
                res.append(('sol-objno-echo-names-an-objective-that-was-not-delivered', 'delivered NL objectives %s, .sol says objno %d' % (match, sol['objno'])))
        for ext in ('.nl', '.sol', '.trace'):
            try:
                os.unlink(r['base'] + ext)
            except OSError:
                pass
        return k, res, info, True

    for k, res, info, judged in run.pmap_proc(one, range(ncases), chunk=4):
        nt = judged and (info['N'] >= 2 or any(op in info['ops'] for op in ('abs', 'min', 'max', 'if', 'count', 'pl', '^2', '*', 'numberof')))
        ctx.count('%d|%s|%d|%d|%s' % (info['N'], info['objno'], info['multiobj'], info['quadobj'], ','.join(info['ops'])[:60]), nontrivial=nt)
        ctx.bump('points_compared', info.get('points_checked', 0))
        if info.get('refused'):
            ctx.bump('refused_by_converter')
        if info.get('infeasible'):
            ctx.bump('proven_infeasible_by_converter')
        if judged and info['N'] >= 2 and info['delivered']:
            ctx.sample(dict(case=k, objectives_in_NL=info['N'], objno=info['objno'], multiobj=info['multiobj'], quadobj=info['quadobj'],
                            delivered=info['delivered'], points=info.get('points_checked')), cap=5)
        for key, text in res:
            ctx.violation(key, '%s (case %d: %s)' % (text, k, {a: b for a, b in info.items() if a != 'ops'}), dict(case=k, seed=seed, info=info, regenerate='vf.c12 one(%d) with seed %d' % (k, seed)))
    ctx.assumptions += ['when both objno and multiobj are given either outcome (all objectives / the objno-th) is accepted',
                        'objective functions are compared through forward evaluation of the delivered functional constraints (all accepted natively)']
    return ctx.finish(RULE, floor=40)


def replay(path):
    print(open(path).read()); return 0
