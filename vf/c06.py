"""C06: inferred bounds and integrality of auxiliary variables never cut off a value; constant/alias replacement is exact."""
import os, random, math
from fractions import Fraction as Fr
from . import mpmon, run, gen_nl, flat_eval

RULE = ("seeded random NL models: 1..3 variables with hostile domains (finite, fixed, negative, zero-crossing, half-infinite, free; continuous / "
        "integer / binary) and 2..4 expressions (depth <= 3) over affine and quadratic terms, abs, min, max, x^p with p in {-3..4, +-1/2, 3/2, 1/3}, "
        "a^x, x/y, if-then-else, count, numberof, comparisons, and/or/not, exp, log, log10, sqrt, sin, cos, tan, asin, acos, atan, sinh, cosh, tanh, "
        "asinh, acosh, atanh, piecewise-linear terms, placed in objectives and defined variables (no constraint can narrow a bound) or in "
        "constraints made feasible at a point; all flat types accepted natively so that every auxiliary variable reaches the ModelAPI together with "
        "its defining constraint; oracle: at every sampled point of the variable domain (all points when no constraint is present, NL-feasible "
        "points otherwise) each auxiliary value, computed by forward evaluation of the recorded functional constraints with independent semantics, "
        "must lie within the delivered bounds (exactly for rational values, 1e-9 relative for transcendental ones) and be integral if the variable "
        "was declared integer; the delivered objective must equal the NL objective there; non-trivial = >=2 functional constraints with finite "
        "inferred bounds judged on >=5 points; distinct = (domain kinds, functional constraint types)")

EXPO = [Fr(-3), Fr(-2), Fr(-1), Fr(-1, 2), Fr(1, 2), Fr(3, 2), Fr(2), Fr(3), Fr(4), Fr(1, 3), Fr(0), Fr(1), Fr(5, 2)]
BASES = [Fr(2), Fr(1, 2), Fr(3), Fr(10), Fr(5, 4)]


def prebuild():
    mpmon.exe()


def gen_domain(rng):
    t = rng.choice('ccccibi')
    kind = rng.choice(['finite', 'finite', 'finite', 'fixed', 'neg', 'zerocross', 'pos', 'lowinf', 'upinf', 'free'])
    g = 1 if t != 'c' else 4
    def q(lo, hi):
        return Fr(rng.randint(lo * g, hi * g), g)
    if t == 'b':
        return dict(lb=Fr(0), ub=Fr(1), type='b'), 'binary'
    if kind == 'finite':
        a = q(-6, 6); d = dict(lb=a, ub=a + q(0, 6))
    elif kind == 'fixed':
        a = q(-4, 4); d = dict(lb=a, ub=a)
    elif kind == 'neg':
        a = q(-8, -1); d = dict(lb=a, ub=min(Fr(0), a + q(0, 6)) if rng.random() < 0.5 else a + q(0, 1) - 1 if a < -1 else a)
        if d['ub'] < d['lb']:
            d['ub'] = d['lb']
    elif kind == 'zerocross':
        d = dict(lb=-q(0, 5), ub=q(0, 5))
    elif kind == 'pos':
        a = q(0, 3); d = dict(lb=a, ub=a + q(0, 6))
    elif kind == 'lowinf':
        d = dict(lb=-math.inf, ub=q(-4, 4))
    elif kind == 'upinf':
        d = dict(lb=q(-4, 4), ub=math.inf)
    else:
        d = dict(lb=-math.inf, ub=math.inf)
    d['type'] = t
    return d, kind + ('-int' if t == 'i' else '')


class EG:
    def __init__(self, rng, nv, ndv):
        self.r, self.nv, self.ndv = rng, nv, ndv

    def leaf(self):
        r = self.r
        if self.ndv and r.random() < 0.15:
            return ('dv', r.randrange(self.ndv))
        if r.random() < 0.8:
            return ('v', r.randrange(self.nv))
        return ('n', Fr(r.randint(-12, 12), 4))

    def aff(self):
        r = self.r
        e = ('*', ('n', Fr(r.choice([-3, -2, -1, 1, 2, 3, 5]), r.choice([1, 2, 4]))), ('v', r.randrange(self.nv)))
        if r.random() < 0.5:
            e = ('+', e, ('n', Fr(r.randint(-8, 8), 4)))
        if r.random() < 0.3 and self.nv > 1:
            e = ('+', e, ('*', ('n', Fr(r.choice([-2, -1, 1, 2]), 1)), ('v', r.randrange(self.nv))))
        return e

    def num(self, d):
        r = self.r
        if d <= 0:
            return self.leaf() if r.random() < 0.6 else self.aff()
        k = r.choice(['aff', 'abs', 'min', 'max', 'powc', 'powc', 'cpow', 'div', 'mul', 'sq', 'if', 'count', 'numberof', 'smooth', 'smooth', 'smooth', 'pl', 'sum'])
        if k == 'aff':
            return self.aff()
        if k == 'abs':
            return ('abs', self.num(d - 1))
        if k in ('min', 'max'):
            return (k, [self.num(d - 1) for _ in range(r.randint(1, 3))])
        if k == 'powc':
            return ('powc', self.num(d - 1), ('n', r.choice(EXPO)))
        if k == 'cpow':
            return ('cpow', ('n', r.choice(BASES)), self.num(d - 1))
        if k == 'div':
            return ('/', self.num(d - 1), self.num(0) if r.random() < 0.7 else ('n', Fr(r.choice([-4, -2, -1, 1, 2, 4]), r.choice([1, 2]))))
        if k == 'mul':
            return ('*', self.num(d - 1), self.num(0))
        if k == 'sq':
            return ('^2', self.num(d - 1))
        if k == 'if':
            return ('if', self.logic(d - 1), self.num(d - 1), self.num(d - 1))
        if k == 'count':
            return ('count', [self.logic(d - 1) for _ in range(r.randint(1, 3))])
        if k == 'numberof':
            return ('numberof', [self.num(0) if r.random() < 0.5 else ('n', Fr(r.randint(-3, 3))) ] + [self.num(0) for _ in range(r.randint(1, 3))])
        if k == 'smooth':
            return (r.choice(gen_nl.UNARY_SMOOTH), self.num(d - 1))
        if k == 'pl':
            nb = r.randint(1, 3)
            bps = sorted(set(Fr(r.randint(-12, 12), 4) for _ in range(nb)))
            slopes = [Fr(r.randint(-8, 8), 4) for _ in range(len(bps) + 1)]
            return ('pl', slopes, bps, ('v', r.randrange(self.nv)))
        return ('sum', [self.num(d - 1) for _ in range(r.randint(2, 3))])

    def logic(self, d):
        r = self.r
        k = r.choice(['rel', 'rel', 'rel', 'and', 'or', 'not']) if d > 0 else 'rel'
        if k == 'rel':
            return (r.choice(gen_nl.REL), self.num(max(d - 1, 0)), self.num(0) if r.random() < 0.4 else ('n', Fr(r.randint(-12, 12), 4)))
        if k == 'not':
            return ('not', self.logic(d - 1))
        return (k, self.logic(d - 1), self.logic(d - 1))


def gen_model(rng):
    m = gen_nl.Model()
    nv = rng.randint(1, 3)
    kinds = []
    doms = [gen_domain(rng) for _ in range(nv)]
    doms.sort(key=lambda dk: 'cbi'.index(dk[0]['type']))
    for d, k in doms:
        m.vars.append(d); kinds.append(k)
    ndv = rng.choice([0, 0, 1])
    g = EG(rng, nv, 0)
    for _ in range(ndv):
        m.dvars.append(dict(lin={}, expr=g.num(rng.randint(1, 2))))
    g = EG(rng, nv, ndv)
    with_cons = rng.random() < 0.35
    for _ in range(rng.randint(2, 4)):
        m.objs.append(dict(sense=rng.randint(0, 1), expr=g.num(rng.randint(1, 3)), lin={}))
    if with_cons:
        for _ in range(rng.randint(1, 2)):
            a = Fr(rng.randint(-16, 16), 4)
            lb, ub = rng.choice([(a, a + Fr(rng.randint(1, 24), 4)), (-math.inf, a), (a, math.inf)])
            m.cons.append(dict(expr=g.num(rng.randint(1, 2)), lin={}, lb=lb, ub=ub))
        if rng.random() < 0.5:
            m.lcons.append(g.logic(2))
    return m, kinds, with_cons


def sample_points(m, rng, cap):
    axes = []
    for v in m.vars:
        lo, hi = v['lb'], v['ub']
        integer = v['type'] != 'c'
        if lo == -math.inf and hi == math.inf:
            pts = [Fr(0), Fr(1), Fr(-1), Fr(7), Fr(-7), Fr(100), Fr(-100), Fr(10 ** 4), Fr(-10 ** 4)] + ([] if integer else [Fr(1, 4), Fr(-1, 4), Fr(5, 2), Fr(-15, 4)])
        elif lo == -math.inf:
            pts = [hi, hi - 1, hi - 7, hi - 100, hi - 10 ** 4] + ([] if integer else [hi - Fr(1, 4), hi - Fr(5, 2)])
        elif hi == math.inf:
            pts = [lo, lo + 1, lo + 7, lo + 100, lo + 10 ** 4] + ([] if integer else [lo + Fr(1, 4), lo + Fr(5, 2)])
        else:
            if integer:
                lo_i, hi_i = math.ceil(lo), math.floor(hi)
                pts = [Fr(k) for k in range(lo_i, hi_i + 1)]
            else:
                n = int((hi - lo) * 4); pts = [lo + Fr(k, 4) for k in range(n + 1)]
                if pts[-1] != hi:
                    pts.append(hi)
                if len(pts) > 13:
                    keep = {pts[0], pts[-1], pts[1], pts[-2]}; keep.update(rng.sample(pts, 9)); pts = sorted(keep)
                pts += [lo + (hi - lo) * Fr(rng.randint(1, 63), 64) for _ in range(2)] if hi > lo else []
        if integer:
            pts = [p for p in pts if p.denominator == 1]
        if not pts:
            return []
        axes.append(sorted(set(pts)))
    import itertools
    total = 1
    for a in axes:
        total *= len(a)
    if total <= cap:
        return [list(p) for p in itertools.product(*axes)]
    out = set(itertools.islice(itertools.product(*[(a[0], a[-1]) for a in axes]), 16))
    while len(out) < cap:
        out.add(tuple(rng.choice(a) for a in axes))
    return [list(p) for p in out]


def dyadic(v):
    d = v.denominator
    return d & (d - 1) == 0 and d.bit_length() <= 40 and abs(v.numerator).bit_length() <= 50


def within(v, lo, hi):
    """(ok, exact?)"""
    v = float(v)        # inferred bounds are computed in double arithmetic: 1e-9 relative slack throughout
    if math.isnan(v) or math.isinf(v):
        return True      # not judged
    tau = 1e-9 * max(1.0, abs(v), abs(lo) if not math.isinf(lo) else 0, abs(hi) if not math.isinf(hi) else 0)
    return lo - tau <= v <= hi + tau


def main(tier, seed):
    ctx = run.Ctx('C06', tier, seed)
    exe = mpmon.exe()
    wd = ctx.workdir()
    ncases = ctx.n(12000, 300000)
    cap = ctx.n(60, 250)

    def one(k):
        rng = random.Random('%d/%d' % (seed, k))
        m, kinds, with_cons = gen_model(rng)
        if with_cons:
            gen_nl_p0 = None
            try:
                gen_nl_p0 = gen_nl.make_feasible_at(m, rng) if all(v['lb'] != -math.inf and v['ub'] != math.inf for v in m.vars) else None
            except ArithmeticError:
                pass
        info = dict(kinds=kinds, types=[], judged=0, nfin=0, npts=0, delivered=False, cons=with_cons)
        res = []
        opts = ['multiobj=1']
        if rng.random() < 0.15:
            opts.append('cvt:pre:all=0')
        r = mpmon.run_case(exe, wd, 'b%d' % k, m.to_nl(), opts=opts, acc={'*': 2}, timeout=120)
        tr = flat_eval.Trace(r['trace'])
        death = run.classify_death(r)
        if death and death[0] not in ('exit:1', 'exit:255'):
            res.append(('%s:%s' % (death[0], death[1]), 'driver died: ' + death[2][-300:]))
            return k, res, info
        if not tr.finished:
            return k, res, info
        info['delivered'] = True
        fun = tr.functional()
        info['types'] = sorted(set(c['type'] for c in fun))
        info['nfin'] = sum(1 for c in fun if not math.isinf(tr.lb[c['data']['res']]) or not math.isinf(tr.ub[c['data']['res']]))
        nv = len(m.vars)
        pts = sample_points(m, rng, cap)
        reported = set()
        logargs = [(c['data']['args'][0], 1e-6 if c['type'] == 'LogConstraint' else 0.0) for c in fun if c['type'] in ('LogConstraint', 'LogAConstraint')]
        for p in pts:
            try:
                ev = m.evaluate(p)
            except ArithmeticError:
                continue
            if with_cons and not ev['feasible']:
                continue
            x, errs = flat_eval.forward(tr, p)
            info['npts'] += 1
            # the converter forces the argument of every log/log10 to be >= 1e-6 / >= 0 (known finding): points of that region are attributed to it
            region = ''
            for a, thr in logargs:
                if x[a] is not None and float(x[a]) < thr:
                    region = ':log-argument-forced-positive:' + ('log-not-evaluated-at-this-point' if float(x[a]) <= 0 else 'positive-argument-below-1e-6')
                    if float(x[a]) <= 0:
                        break
            for c in fun:
                rvar = c['data']['res']
                v = x[rvar]
                if v is None:
                    continue
                info['judged'] += 1
                lo, hi = tr.lb[rvar], tr.ub[rvar]
                if not within(v, lo, hi):
                    key = 'bounds-cut-off-a-value' + (region or ':' + c['type'])
                    if key not in reported:
                        reported.add(key)
                        res.append((key, '%s result var %d bounds [%r, %r] but value %s at x=%s (args %s, params %s)' % (c['type'], rvar, lo, hi, v, [str(t) for t in p], str(c['data'].get('args'))[:120], str(c['data'].get('params'))[:80])))
                elif tr.type[rvar] == 1:
                    fv = float(v)
                    if not math.isinf(fv) and abs(fv - round(fv)) > 1e-9 * max(1.0, abs(fv)):
                        key = 'declared-integer-but-fractional-value:' + c['type']
                        if key not in reported:
                            reported.add(key)
                            res.append((key, '%s result var %d declared integer, value %s at x=%s' % (c['type'], rvar, v, [str(t) for t in p])))
            # objective equality (constant / alias replacement must be exact)
            # not judged when some intermediate value is huge: a periodic function of 1e23 is decided by the last bit of its argument
            huge = any(v is not None and not isinstance(v, Fr) and (math.isinf(v) or abs(v) > 1e6) for v in x) or any(isinstance(v, Fr) and abs(v) > 10 ** 6 for v in x if v is not None)
            for pos, o in enumerate(tr.objs):
                if huge:
                    break
                if o['i'] >= len(m.objs):
                    continue
                dv = flat_eval.obj_value(o, x)
                nlv = ev['objs'][o['i']]
                if dv is None:
                    continue
                if isinstance(dv, Fr) and isinstance(nlv, Fr) and dyadic(nlv) and dyadic(dv):
                    bad = dv != nlv
                else:
                    a, b = float(dv), float(nlv)
                    bad = not (math.isnan(a) or math.isnan(b) or math.isinf(a) or math.isinf(b)) and abs(a - b) > 1e-7 * max(1.0, abs(a), abs(b))
                if bad:
                    key = ('bounds-cut-off-a-value' + region) if region else 'delivered-expression-differs-from-NL-expression'
                    if key not in reported:
                        reported.add(key)
                        res.append((key, 'objective %d at x=%s: NL %s delivered %s (types %s)' % (o['i'], [str(t) for t in p], nlv, dv, info['types'])))
        if not res:
            for ext in ('.nl', '.sol', '.trace'):
                try:
                    os.unlink(r['base'] + ext)
                except OSError:
                    pass
        return k, res, info

    for k, res, info in run.pmap_proc(one, range(ncases)):
        ctx.count('%s|%s' % (','.join(info['kinds']), ','.join(info['types'])[:100]), nontrivial=info['nfin'] >= 2 and info['npts'] >= 5)
        ctx.bump('aux_values_judged', info['judged'])
        ctx.bump('points', info['npts'])
        ctx.bump('models_delivered', 1 if info['delivered'] else 0)
        for t in info['types']:
            ctx.addset('functional_types_seen', t)
        if info['nfin'] >= 4 and info['npts'] >= 20:
            ctx.sample(dict(case=k, domains=info['kinds'], functional_types=info['types'], points=info['npts'], aux_values=info['judged']), cap=5)
        for key, text in res:
            ctx.violation(key, '%s (case %d)' % (text[:600], k), dict(case=k, seed=seed, info=info))
    ctx.assumptions += ['values are exact rationals wherever the expression is rational; transcendental values are compared with relative tolerance 1e-9 and comparisons decided within 1e-9 are not judged',
                        'points where an argument leaves the domain of a function (log of a non-positive number, division by zero, overflow) are skipped for that expression and its dependents',
                        'models with constraints are judged only at NL-feasible points (root constraints may legitimately narrow bounds)']
    return ctx.finish(RULE, floor=40)


def replay(path):
    print(open(path).read()); return 0
