"""C10: solve-result codes are classified and reported as documented."""
import os, re
from . import mpmon, run, solfile, nltext

RULE = ("complete enumeration: every status code -200..999 x {primal present/absent} x {dual present/absent} x {objective values present/absent} is "
        "scripted into the monitor driver's backend on a fixed 3-variable LP (one process per combination); the classification predicates "
        "(exposed by the backend subclass), the solve message, the 'objno N code' line of the written .sol and the -! table are compared with the "
        "ranges transcribed from doc/source/features-guide.rst; non-trivial = run produced a complete .sol; distinct = distinct (code, presence mask)")

DOC_TABLE = [(0, 99, 'solved'), (100, 199, 'solved?'), (200, 299, 'infeasible'), (300, 349, 'unbounded, feasible'), (350, 399, 'unbounded, no feasible'),
             (400, 449, 'limit, feasible'), (450, 469, 'limit, problem is either infeasible or unbounded'), (470, 499, 'limit, no solution'), (500, 999, 'failure')]


def expected(code):
    r = lambda a, b: a <= code <= b
    return dict(IsProblemSolved=r(0, 99), IsProblemSolvedOrFeasible=r(0, 99) or r(300, 349) or r(400, 449), IsProblemInfeasible=r(200, 299),
                IsProblemUnbounded=r(300, 399), IsProblemIndiffInfOrUnb=r(450, 469), IsProblemInfOrUnb=r(200, 399) or r(450, 469))


def prebuild():
    mpmon.exe()


def main(tier, seed):
    ctx = run.Ctx('C10', tier, seed)
    exe = mpmon.exe()
    wd = ctx.workdir()
    cases = [(code, mask) for code in range(-200, 1000) for mask in range(8)]

    def one(cm):
        code, mask = cm
        script = 'status %d scripted-result-%d\n' % (code, code)
        if mask & 1:
            script += 'x 1.5 2.5 3.5\n'
        if mask & 2:
            script += 'dual3 0.25 -0.75\n'
        if mask & 4:
            script += 'objvals 17\n'
        stub = 'c%d_%d' % (code + 200, mask)
        r = mpmon.run_case(exe, wd, stub, nltext.LP3, script=script, timeout=60)
        res = []
        st = [t for t in r['trace'] if t.get('ev') == 'status']
        death = run.classify_death(r)
        if death and death[0] not in ('exit:1',):
            res.append(('%s:%s' % (death[0], death[1]), 'driver died for code %d mask %d' % (code, mask)))
        if not st:
            res.append(('status-not-reached', 'code %d mask %d rc=%s err=%s' % (code, mask, r['rc'], r['err'][-200:])))
        else:
            exp = expected(code)
            for k, v in exp.items():
                if st[0].get(k) != v:
                    lo = max(c for c in [-200, 0, 100, 200, 300, 350, 400, 450, 470, 500] if c <= code)
                    res.append(('%s-wrong-for-range-starting-%d%s' % (k, lo, ':last-code-of-range' if code in (99, 199, 299, 349, 399, 449, 469, 499, 999) else ''),
                                'code %d: %s is %s, documented %s' % (code, k, st[0].get(k), v)))
        sol = None
        if r['sol'] is None:
            res.append(('no-sol-file', 'code %d mask %d' % (code, mask)))
        else:
            try:
                sol = solfile.parse(r['sol'])
            except solfile.SolError as e:
                res.append(('malformed-sol', 'code %d mask %d: %s' % (code, mask, e)))
        if sol:
            if sol['code'] != code:
                res.append(('sol-code-differs', 'scripted %d, .sol has %s' % (code, sol['code'])))
            want_obj = expected(code)['IsProblemSolvedOrFeasible']     # the model has an objective
            has_obj = re.search(r'; (feasrelax )?objective ', sol['message'].split('\n')[0]) is not None
            if has_obj != want_obj:
                lo = max(c for c in [-200, 0, 100, 200, 300, 350, 400, 450, 470, 500] if c <= code)
                res.append(('objective-%s-in-message-for-range-starting-%d' % ('missing' if want_obj else 'shown', lo), 'code %d mask %d message %r' % (code, mask, sol['message'][:120])))
            if ('scripted-result-%d' % code) not in sol['message']:
                res.append(('status-text-missing-in-message', 'code %d' % code))
            if sol['n_var'] != 3 or sol['n_con'] != 2:
                res.append(('sol-dimensions-differ', str((sol['n_var'], sol['n_con']))))
            if (mask & 1) and sol['primals'] != [1.5, 2.5, 3.5]:
                res.append(('primal-values-differ', str(sol['primals'])))
            if not (mask & 1) and sol['primals']:
                res.append(('primal-values-invented', str(sol['primals'])))
        for ext in ('.nl', '.sol', '.trace', '.script'):
            try:
                os.unlink(r['base'] + ext)
            except OSError:
                pass
        return cm, res, sol is not None, (sol or {}).get('message', '')[:100]

    for (code, mask), res, complete, msg in run.pmap(one, cases):
        ctx.count('%d|%d' % (code, mask), nontrivial=complete)
        if code in (0, 150, 250, 320, 402, 455, 480, 520) and mask == 7:
            ctx.sample(dict(code=code, mask='primal+dual+objective', message=msg), cap=8)
        for key, text in res:
            ctx.violation(key, text, dict(code=code, mask=mask, script_hint='status %d; mask bits: 1 primal, 2 dual, 4 objective values' % code))
    # -! table
    r = run.run_proc([exe, '-!'], 60, cwd=wd)
    out = r['out'].decode('utf-8', 'replace')
    rows = {}
    for l in out.splitlines():
        m = re.match(r'\s*(\d+)-\s*(\d+)\s+(.*)', l)
        if m:
            rows[(int(m.group(1)), int(m.group(2)))] = m.group(3)
    for lo, hi, word in DOC_TABLE:
        if (lo, hi) not in rows or not rows[(lo, hi)].startswith(word.split(',')[0]):
            ctx.violation('result-table-row-%d-%d' % (lo, hi), '-! prints %r, documented %r' % (rows.get((lo, hi)), word), dict(output=out))
    ctx.extras.update(codes_enumerated=1200, presence_masks=8, result_table_rows=len(rows), sanitizers='ASan + UBSan(bounds,...) on the driver')
    ctx.assumptions += ['the table in doc/source/features-guide.rst is the specification; "objective" in the message means the objective value is shown']
    return ctx.finish(RULE, floor=1000, exhaustive=True)


def replay(path):
    print(open(path).read()); return 0
