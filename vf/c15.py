"""C15: an interrupt is never lost and never delivered with inconsistent state."""
import json, signal
from . import build, run

ORDER = [1, 10, 11, 12, 13, 2, 20, 21, 22, 3, 120, 121, 122, 4, 5, 6, 30, 31, 32, 33, 34, 7, 8]
IDX = {p: i for i, p in enumerate(ORDER)}

RULE = ("the real SignalHandler + a BasicSolver are driven through construct -> SetHandler(f1,d1) -> SetHandler(f2,d2) -> solve -> report -> destroy, "
        "one child process per schedule; (a) every schedule of 1-3 SIGINT/SIGTERM deliveries over the 20 delivery points (guarded hooks after "
        "each signal() call and stop_ reset in the constructor, at entry/between the stores/exit of both SetHandler calls, between the "
        "statements of the destructor, and the harness steps) is enumerated completely (raise() from the hook); (b) asynchronous delivery "
        "from an interval timer at random microsecond offsets, the hook-maintained phase counter telling between which two points the signal "
        "hit; oracle on the recorded Stop() values, callback (function,data) pairs, '<BREAK>' count and exit status; non-trivial = >=1 signal "
        "delivered while the handlers were installed; distinct = distinct (mode, delivery points, signals) signatures")


def allowed_callbacks(q, exact):
    """Set of acceptable (fn,data) outcomes (None = no callback) for a signal delivered at point q (exact) or between q and the next point."""
    i = IDX[q]
    if i <= IDX[2] or q in (33, 34, 7, 8):
        return {None}
    if q == 20:
        return {None} if exact else {None, (1, 1)}
    if q == 21:
        return {None, (1, 1)}
    if q in (22, 3):
        return {(1, 1)}
    if q == 120:
        return {(1, 1)} if exact else {(1, 1), (2, 2), None}
    if q == 121:
        return {(1, 1), (2, 2), None}
    if q in (122, 4, 5, 6):
        return {(2, 2)}
    if q == 30 or q == 31:
        return {(2, 2)} if exact else {(2, 2), None} if q == 31 else {(2, 2)}
    if q == 32:
        return {(2, 2)} if exact else {(2, 2), None}
    return {None}


def judge(j, exact):
    """Returns (list of (key, text)), nontrivial flag."""
    bad = []
    obs = j['obs']
    if j['signaled']:
        # killed by a signal: legitimate only if it arrived before the handler for it was installed
        return ([], False) if not exact else ([('child-killed-by-signal', 'signal %d' % j['signaled'])], True)
    if exact:
        plan = j['plan']
        dels = [(p, s) for p, s in plan]
    else:
        if obs is None:
            return [], False
        dels = [(ph, s) for s, ph in obs['dels']]
        if not dels:
            return [], False
        # before installation of that signal's handler the default action applies
        if any(IDX[ph] < IDX[11] or (ph == 11 and s == signal.SIGTERM) for ph, s in dels):
            return [], False
    alive = [d for d in dels if IDX[d[0]] <= IDX[6]]
    in_dtor_or_after = [d for d in dels if IDX[d[0]] > IDX[6]]
    # ---- third signal terminates (only asserted while no delivery touched the destructor's own stop_ bookkeeping)
    if not in_dtor_or_after:
        if len(alive) >= 3:
            if j['exited'] != 1:
                bad.append(('third-interrupt-did-not-terminate', 'deliveries %s exit %s' % (dels, j['exited'])))
            if j['breaks'] != 3:
                bad.append(('break-message-count', '%d messages for 3 signals' % j['breaks']))
            return bad, True
        if j['exited'] != 0 or obs is None:
            bad.append(('process-ended-early', 'deliveries %s exit %s' % (dels, j['exited'])))
            return bad, True
        if j['breaks'] != len(alive):
            bad.append(('break-message-count', '%d messages for %d signals' % (j['breaks'], len(alive))))
    else:
        if j['exited'] not in (0, 1):
            bad.append(('unexpected-exit-status', str(j['exited'])))
        if obs is None:
            return bad, True
    # ---- not lost: Stop() true at every later query while the handler object lives
    if alive:
        first = min(IDX[p] for p, s in alive)
        for step, val in obs['stops']:
            later = IDX[step] >= first if exact else IDX[step] > first
            if later and not val:
                bad.append(('interrupt-lost:stop-query-false-after-delivery-at-point-%s' % ORDER[first], 'deliveries %s, Stop() false at step %d' % (dels, step)))
                break
    # ---- callbacks: consistent pairs, the registration in force, none after teardown
    cbs = [((fn, data), ph) for fn, data, ph in obs['cbs']]
    for (fn, data), ph in cbs:
        if fn != data:
            bad.append(('callback-paired-with-foreign-data', 'f%d called with data of registration %d (phase %d)' % (fn, data, ph)))
    used = [False] * len(cbs)
    for p, s in dels:
        got = None
        for k, (pair, ph) in enumerate(cbs):
            if not used[k] and ph == p:
                used[k] = True; got = pair; break
        al = allowed_callbacks(p, exact)
        if got not in al:
            if got is not None and got[0] != got[1]:
                continue   # already reported as foreign data
            key = 'callback-after-teardown' if (got is not None and IDX[p] >= IDX[33]) else 'wrong-or-missing-callback'
            bad.append(('%s:at-point-%d' % (key, p), 'delivery at %d got %s, allowed %s' % (p, got, sorted(al, key=str))))
    if not all(used):
        bad.append(('callback-without-delivery', str(obs['cbs'])))
    return bad, True


def builds():
    return dict(asan=build.build('asan', 'sig_mon', ['sig_mon.cc']))


def prebuild():
    builds()


def main(tier, seed):
    ctx = run.Ctx('C15', tier, seed, level='fault_enumeration')
    exe = builds()['asan']
    nsched = int(run.run_proc([exe, '--count'], 60)['out'].decode().strip())
    points_hit, async_phases = set(), {}

    def mk(mode):
        exact = mode == 'enum'

        def on_line(j):
            bad, nt = judge(j, exact)
            dels = j['plan'] if exact else (j['obs'] or {}).get('dels', [])
            ctx.count('%s|%s' % (mode, dels), nontrivial=nt)
            if exact:
                points_hit.update(p for p, s in j['plan'])
                if len(j['plan']) == 2:
                    ctx.sample(dict(mode=mode, schedule=j['plan'], exit=j['exited'], breaks=j['breaks'], observed=j['obs']), cap=3)
            else:
                for s, ph in dels:
                    async_phases[str(ph)] = async_phases.get(str(ph), 0) + 1
                if dels and len(ctx.samples) < 5:
                    ctx.sample(dict(mode=mode, timer_us=j['async_us'], delivered_after_point=dels, exit=j['exited'], observed=j['obs']), cap=5)
            for key, text in bad:
                ctx.violation(key, '%s (%s case %d)' % (text, mode, j['case']),
                              dict(mode=mode, record=j, cmd=[exe, '--mode', mode, '--seed', str(seed), '--from', str(j['case']), '--to', str(j['case'] + 1)]))
        return on_line

    def on_death(case, d, cmd):
        kind, top, exc = d
        if kind == 'harness-failure':
            ctx.inconcl('harness failure: ' + exc[-300:]); return
        ctx.violation('%s:%s' % (kind, top), 'signal monitor died on case %d: %s' % (case, kind), dict(cmd=cmd, report=exc))

    run.run_sharded(exe, ['--mode', 'enum'], nsched, mk('enum'), on_death, seed, timeout_per_case=10)
    run.run_sharded(exe, ['--mode', 'async'], ctx.n(30000, 1500000), mk('async'), on_death, seed, timeout_per_case=10)
    ctx.extras.update(enumerated_schedules=nsched, delivery_points=sorted(points_hit), n_delivery_points=len(points_hit),
                      async_deliveries_by_interval=async_phases, sanitizers='ASan + UBSan(bounds,...) (child processes)')
    ctx.assumptions += ['a signal is only "installed" for SIGTERM after the second signal() call: SIGTERM is not raised at point 11',
                        'while a SetHandler call is between its stores, "no callback" is accepted; a callback with the other registration\'s data never is',
                        'exit-on-third-interrupt is asserted only for schedules whose deliveries all precede the destructor (the destructor itself sets the stop flag)',
                        'asynchronous delivery is on the main thread (interval timer), so a thread sanitizer has nothing to observe here']
    return ctx.finish(RULE, floor=100, exhaustive=True)


def replay(path):
    builds()
    return run.generic_replay(path)
