"""Independent strict parser of AMPL text .sol files (oracle side; shares nothing with mp)."""
import re


class SolError(Exception):
    pass


def parse(data):
    """Parse bytes of a text .sol file completely; raises SolError on any structural problem.
    Returns dict(message, options, n_con, n_dual, n_var, n_primal, duals, primals, objno, code, suffixes)."""
    try:
        text = data.decode('utf-8', 'replace')
    except Exception as e:
        raise SolError('undecodable: %s' % e)
    lines = text.split('\n')
    if lines and lines[-1] == '':
        lines.pop()
    i = 0
    msg = []
    while i < len(lines) and lines[i].rstrip('\r') != '':
        msg.append(lines[i].rstrip('\r')); i += 1
    if i >= len(lines):
        raise SolError('message not terminated by an empty line')
    while i < len(lines) and lines[i].rstrip('\r') == '':
        i += 1
    if i >= len(lines) or lines[i].rstrip('\r') != 'Options':
        raise SolError('missing Options block at line %d' % i)
    i += 1

    def ival():
        nonlocal i
        if i >= len(lines):
            raise SolError('truncated (integer expected)')
        s = lines[i].strip(); i += 1
        if not re.fullmatch(r'[+-]?\d+', s):
            raise SolError('integer expected, got %r' % s[:40])
        return int(s)

    def fval():
        nonlocal i
        if i >= len(lines):
            raise SolError('truncated (number expected)')
        s = lines[i].strip(); i += 1
        try:
            return float(s)
        except ValueError:
            raise SolError('number expected, got %r' % s[:40])

    nopt = ival()
    if not 3 <= nopt <= 9:
        raise SolError('option count %d outside 3..9' % nopt)
    opts = [ival() for _ in range(nopt)]
    listed = opts
    if len(opts) >= 2 and opts[1] == 3:
        listed = opts[:-2] if False else opts
    n_con, n_dual, n_var, n_primal = ival(), ival(), ival(), ival()
    if n_dual not in (0, n_con):
        raise SolError('dual count %d is neither 0 nor n_con=%d' % (n_dual, n_con))
    if n_primal not in (0, n_var):
        raise SolError('primal count %d is neither 0 nor n_var=%d' % (n_primal, n_var))
    duals = [fval() for _ in range(n_dual)]
    primals = [fval() for _ in range(n_primal)]
    objno, code = None, None
    sufs = []
    if i < len(lines):
        m = re.fullmatch(r'objno (-?\d+) (-?\d+)', lines[i].strip())
        if not m:
            raise SolError('objno line expected, got %r' % lines[i][:60])
        objno, code = int(m.group(1)), int(m.group(2)); i += 1
        while i < len(lines):
            m = re.fullmatch(r'suffix (\d+) (\d+) (\d+) (\d+) (\d+)', lines[i].strip())
            if not m:
                raise SolError('suffix header expected, got %r' % lines[i][:60])
            kind, nv, namelen, tablen, tablines = map(int, m.groups()); i += 1
            if i >= len(lines):
                raise SolError('truncated suffix name')
            name = lines[i]; i += 1
            if len(name) + 1 != namelen:
                raise SolError('suffix name length %d does not match header %d' % (len(name) + 1, namelen))
            table = []
            for _ in range(tablines):
                if i >= len(lines):
                    raise SolError('truncated suffix table')
                table.append(lines[i]); i += 1
            vals = []
            for _ in range(nv):
                if i >= len(lines):
                    raise SolError('truncated suffix values')
                parts = lines[i].split(); i += 1
                if len(parts) != 2:
                    raise SolError('suffix value line %r' % lines[i - 1][:40])
                try:
                    vals.append((int(parts[0]), float(parts[1])))
                except ValueError:
                    raise SolError('suffix value line %r' % lines[i - 1][:40])
            sufs.append(dict(kind=kind, name=name, table='\n'.join(table), values=vals))
    else:
        raise SolError('objno line missing')
    return dict(message='\n'.join(msg), options=opts, n_con=n_con, n_dual=n_dual, n_var=n_var, n_primal=n_primal, duals=duals, primals=primals,
                objno=objno, code=code, suffixes=sufs)
