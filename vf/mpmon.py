"""Build and run the monitor driver mpmon (serves C01 C04 C06 C07 C09 C10 C12 C19 C20)."""
import json, os, subprocess
from . import build, run, nl_bin


def exe(variant='asan'):
    return build.build(variant, 'mpmon', ['mpmon/monbackend.cc', 'mpmon/mon_mm.cc'], extra_flags=['-I' + os.path.join(build.HARN, 'mpmon')])


def run_case(exe_path, workdir, stub, nl_text, opts=(), acc=None, flags=None, script=None, names=None, ampl=True, timeout=60, env_extra=None,
             col=None, row=None, binary=None):
    """Write stub.nl (+.col/.row), run `mpmon stub -AMPL opts...`; return dict(rc, out, err, trace[list], sol_bytes or None, timed_out, sig)."""
    base = os.path.join(workdir, stub)
    # input format: about one run in four gets the equivalent binary NL file (deterministic in stub and text; binary=False/True forces it)
    fmt = 'b' if isinstance(nl_text, bytes) else 't'
    if isinstance(nl_text, str) and binary is not False:
        v = nl_bin.pick(stub, nl_text) if binary is None else 1
        b = nl_bin.text_to_binary(nl_text, v) if v else None
        if b is not None:
            nl_text, fmt = b, 'b'
    try:
        fd = os.open(os.path.join(workdir, '.nlfmt'), os.O_WRONLY | os.O_APPEND | os.O_CREAT, 0o644)
        os.write(fd, fmt.encode()); os.close(fd)
    except OSError:
        pass
    mode = 'wb' if isinstance(nl_text, bytes) else 'w'
    with open(base + '.nl', mode) as f:
        f.write(nl_text)
    for ext, content in (('.col', col), ('.row', row)):
        p = base + ext
        if content is not None:
            with open(p, 'w', newline='', encoding='utf-8') as f:
                f.write(content)
        elif os.path.exists(p):
            os.unlink(p)
    for ext in ('.sol', '.trace'):
        if os.path.isfile(base + ext):
            os.unlink(base + ext)
    env = {'MON_TRACE': base + '.trace'}
    if acc:
        env['MON_ACC'] = ','.join('%s=%d' % kv for kv in acc.items())
    if flags:
        env['MON_FLAGS'] = ','.join('%s=%s' % kv for kv in flags.items())
    if script is not None:
        with open(base + '.script', 'w') as f:
            f.write(script)
        env['MON_SCRIPT'] = base + '.script'
    if env_extra:
        env.update(env_extra)
    cmd = [exe_path, base] + (['-AMPL'] if ampl else []) + list(opts)
    r = run.run_proc(cmd, timeout, env=env, cwd=workdir)
    trace = []
    if os.path.exists(base + '.trace'):
        for l in open(base + '.trace', encoding='utf-8', errors='replace'):
            l = l.strip()
            if l:
                try:
                    trace.append(json.loads(l))
                except ValueError:
                    trace.append({'ev': 'unparsable', 'raw': l[:300]})
    sol = open(base + '.sol', 'rb').read() if os.path.isfile(base + '.sol') else None
    r.update(trace=trace, sol=sol, cmd=cmd, env=env, base=base, nl_format=fmt)
    return r
