"""libFuzzer tier helper (clang, ASan+UBSan): runs several fuzzer processes from a seed corpus and routes every crash through the
check's violation keys (monitor aborts print 'MONITOR-VIOLATION <key>'; anything else is classified from the sanitizer report)."""
import os, re, shutil, subprocess
from . import run


def run_fuzzers(ctx, exe, corpus, total_runs, seed, workdir, max_len=4096, procs=12, what='reader', env_extra=None):
    per = max(1000, total_runs // procs)
    jobs = []
    for i in range(procs):
        cdir = os.path.join(workdir, 'corpus_%d' % i)
        shutil.rmtree(cdir, ignore_errors=True)
        shutil.copytree(corpus, cdir)
        art = os.path.join(workdir, 'artifact_%d_' % i)
        cmd = [exe, cdir, '-runs=%d' % per, '-seed=%d' % (seed * 1000 + i + 1), '-max_len=%d' % max_len, '-timeout=20', '-rss_limit_mb=3000', '-malloc_limit_mb=2000000',
               '-artifact_prefix=' + art, '-print_final_stats=1', '-verbosity=0', '-close_fd_mask=1']
        env = dict(os.environ, ASAN_OPTIONS='detect_leaks=0:allocator_may_return_null=1:max_allocation_size_mb=256', UBSAN_OPTIONS='print_stacktrace=1',
                   FUZZ_TMPDIR=workdir)
        if env_extra:
            env.update(env_extra)
        jobs.append((cmd, subprocess.Popen(cmd, stdout=subprocess.DEVNULL, stderr=subprocess.PIPE, env=env, cwd=workdir), cdir, art))
    execs = newu = 0
    for cmd, p, cdir, art in jobs:
        try:
            _, err = p.communicate(timeout=3 * 3600)
        except subprocess.TimeoutExpired:
            p.kill(); _, err = p.communicate(); ctx.inconcl('fuzzer process exceeded the wall-clock watchdog'); continue
        err = err.decode('utf-8', 'replace')
        m = re.search(r'stat::number_of_executed_units:\s*(\d+)', err)
        execs += int(m.group(1)) if m else 0
        m = re.search(r'stat::new_units_added:\s*(\d+)', err)
        newu += int(m.group(1)) if m else 0
        if p.returncode != 0:
            unit = re.search(r'Test unit written to (\S+)', err)
            mv = re.search(r'MONITOR-VIOLATION (\S+)', err)
            if mv:
                key = mv.group(1)
            elif 'out-of-memory' in err or 'rss limit' in err.lower() or 'malloc limit' in err.lower():
                ctx.bump('fuzz_allocation_limit_stops'); key = None
                ctx.extras.setdefault('fuzz_allocation_limit_example', err[-700:])
            elif 'timeout' in err and 'ALARM' in err:
                key = 'fuzz:hang'
            else:
                ps = run.parse_sanitizer(err)
                if ps and ps[0] == 'oom':
                    ctx.bump('fuzz_allocation_limit_stops'); key = None
                else:
                    key = ('fuzz:%s:%s' % (ps[0], ps[1])) if ps else 'fuzz:process-died-without-report(rc=%d)' % p.returncode
            if key:
                keep = None
                if unit and os.path.exists(unit.group(1)):
                    keep = unit.group(1)
                ctx.violation(key, '%s (libFuzzer, %s) %s' % (key, what, err[-600:].replace('\n', ' | ')), dict(cmd=cmd, unit=keep, report=err[-3000:]))
        shutil.rmtree(cdir, ignore_errors=True)
    ctx.bump('fuzz_executions', execs)
    ctx.bump('fuzz_new_corpus_units', newu)
    return execs
