"""C19: names given to the solver are complete, faithful and unique."""
import os, random, re
from . import mpmon, run, solfile, gen_nl, flat_eval

RULE = ("seeded random NL models (shared defined variables, nested conversions, ranges, logical constraints, several objectives) x cvt:names 0..3 x "
        "name files {absent, exact, shorter than the model, CRLF, identifiers that look like derived names (x_2_)} x acceptance configurations "
        "{everything native, linear only, random mix}; oracle on the recorded AddVariables names and constraint/objective names: when names are "
        "requested and available every delivered item has a non-empty name, original variables/objectives carry the file's or the documented "
        "generic name, every created name is derived from (prefixed by) a source item's name, no two variables and no two constraints share a "
        "name; non-trivial = names were delivered and the conversion created >=3 items; distinct = distinct (names mode, file mode, acceptance, "
        "constraint-type set) signatures")


def prebuild():
    mpmon.exe()


def main(tier, seed):
    ctx = run.Ctx('C19', tier, seed)
    exe = mpmon.exe()
    wd = ctx.workdir()
    ncases = ctx.n(12000, 300000)

    def one(k):
        rng = random.Random('%d/%d' % (seed, k))
        m = gen_nl.G(rng, dict(nobjs=(0, 2), ndv=(0, 2))).model()
        nv, nalg, nlog, nobj, ndv = len(m.vars), len(m.cons), len(m.lcons), len(m.objs), len(m.dvars)
        mode = rng.choice([0, 1, 1, 2, 2, 3, 3])
        fmode = rng.choice(['absent', 'exact', 'exact', 'short', 'crlf', 'lookalike'])
        cn = ['x%d' % i if rng.random() < 0.5 else "y['a%d',%d]" % (i, i) for i in range(nv)] + ['dv%d' % i for i in range(ndv)]
        rn = ['c%d' % i for i in range(nalg)] + ['lc[%d]' % i for i in range(nlog)] + ['obj%d' % i for i in range(nobj)]
        if fmode == 'lookalike':
            cn = ['c0_%d_' % (i + 2) for i in range(nv)] + ['dv%d' % i for i in range(ndv)]
            if nalg:
                rn[0] = 'c0'
        if fmode == 'short':
            cn, rn = cn[:max(1, len(cn) // 2)], rn[:len(rn) // 2]
        col = row = None
        if fmode != 'absent':
            nl = '\r\n' if fmode == 'crlf' else '\n'
            col = nl.join(cn) + (nl if cn else ''); row = nl.join(rn) + (nl if rn else '')
        accsel = rng.randrange(3)
        acc = [{'*': 2}, {'*': 0, 'LinConLE': 2, 'LinConEQ': 2, 'LinConGE': 2}, None][accsel]
        if acc is None:
            acc = {'*': rng.choice([0, 2]), 'LinConLE': 2, 'LinConEQ': 2, 'LinConGE': 2}
            for t in rng.sample(['LinConRange', 'QuadConLE', 'QuadConRange', 'IndicatorConstraintLinLE', 'IndicatorConstraintLinGE', 'IndicatorConstraintLinEQ', 'MaxConstraint', 'MinConstraint', 'AbsConstraint',
                                 'AndConstraint', 'OrConstraint', 'PLConstraint', 'SOS2Constraint', 'CountConstraint', 'IfThenConstraint', 'NotConstraint', 'DivConstraint'], rng.randrange(1, 9)):
                acc[t] = rng.choice([0, 2])
        opts = ['cvt:names=%d' % mode]
        r = mpmon.run_case(exe, wd, 'n%d' % k, m.to_nl(), opts=opts, acc=acc, timeout=120, col=col, row=row)
        tr = flat_eval.Trace(r['trace'])
        res = []
        info = dict(mode=mode, fmode=fmode, acc=accsel, types=sorted(set(c['type'] for c in tr.cons)), delivered=tr.finished, created=0, named=False)
        death = run.classify_death(r)
        if death and death[0] not in ('exit:1',):
            res.append(('%s:%s' % (death[0], death[1]), 'driver died: ' + death[2][-300:]))
        if not tr.finished:
            return k, res, info
        nread_col = 0 if fmode == 'absent' else len(cn)
        nread_row = 0 if fmode == 'absent' else len(rn)
        requested = mode == 3 or mode == 2 or (mode == 1 and (nread_col + nread_row) > 0)
        vnames = tr.names
        have = any(n for n in vnames) or any(c['name'] for c in tr.cons)
        info['named'] = have
        if not requested:
            return k, res, info      # nothing is promised when names are not requested / not available
        use_files = mode in (1, 2)
        exp_var = [(cn[i] if (use_files and i < nread_col) else '_svar[%d]' % (i + 1)) for i in range(nv)]
        exp_dv = [(cn[nv + i] if (use_files and nv + i < nread_col) else '_sdvar[%d]' % (i + 1)) for i in range(ndv)]
        exp_con = [(rn[i] if (use_files and i < nread_row) else ('_scon[%d]' % (i + 1) if i < nalg else '_slogcon[%d]' % (i - nalg + 1))) for i in range(nalg + nlog)]
        exp_obj = [(rn[nalg + nlog + i] if (use_files and nalg + nlog + i < nread_row) else '_sobj[%d]' % (i + 1)) for i in range(nobj)]
        # completeness
        if any(not n for n in vnames):
            res.append(('variable-without-name', 'indices %s' % [i for i, n in enumerate(vnames) if not n][:6]))
        if any(not c['name'] for c in tr.cons):
            res.append(('constraint-without-name:' + '+'.join(sorted(set(c['type'] for c in tr.cons if not c['name']))[:4]), 'nameless constraints: %s' % [str(c['data'])[:80] for c in tr.cons if not c['name']][:3]))
        if any(not o['name'] for o in tr.objs):
            res.append(('objective-without-name', ''))
        # faithfulness of original items
        for i in range(min(nv, len(vnames))):
            if vnames[i] and vnames[i] != exp_var[i]:
                res.append(('original-variable-name-differs:file-mode-%s' % fmode, 'var %d: %r expected %r' % (i, vnames[i], exp_var[i]))); break
        for pos, o in enumerate(tr.objs):
            if o['name'] and pos < len(exp_obj) and o['name'] != exp_obj[pos]:
                res.append(('objective-name-differs', '%r expected %r' % (o['name'], exp_obj[pos]))); break
        # derivation: a created name extends the name of an original item
        bases = set(exp_var + exp_dv + exp_con + exp_obj)
        for sfx in m.suffixes:      # an SOS set given by suffixes has no named source item: it is named after its group number
            if sfx['name'] == 'sosno':
                for g in set(sfx['values'].values()):
                    bases.add('SOS%d_%d_' % (1 if g > 0 else 2, g))
        def derived(n):
            return n in bases or any(n.startswith(b + '_') or (b.startswith('SOS') and n.startswith(b)) for b in bases)
        created = [n for n in vnames[nv:] if n] + [c['name'] for c in tr.cons if c['name']]
        info['created'] = len(created)
        und = [n for n in created if not derived(n)]
        if und:
            res.append(('created-name-not-derived-from-a-source-item', '%r (sources e.g. %s)' % (und[:4], sorted(bases)[:5])))
        # uniqueness
        nn = [n for n in vnames if n]
        dv = sorted(set(n for n in nn if nn.count(n) > 1))
        if dv:
            kind = ':lookalike-file-names' if fmode == 'lookalike' else (':derived-names-collide' if all(re.search(r'_\d+_$', n) for n in dv) else ':other')
            res.append(('duplicate-variable-names' + kind, '%r' % dv[:5]))
        cnm = [c['name'] for c in tr.cons if c['name']]
        dc = sorted(set(n for n in cnm if cnm.count(n) > 1))
        if dc:
            types = sorted(set(c['type'] for c in tr.cons if c['name'] in dc))
            kind = ':lookalike-file-names' if fmode == 'lookalike' else (':derived-names-collide' if all(re.search(r'_\d+_$', n) for n in dc) else ':other')
            res.append(('duplicate-constraint-names' + kind, '%r on constraint types %s' % (dc[:5], types)))
        for ext in ('.nl', '.sol', '.trace', '.col', '.row'):
            try:
                os.unlink(r['base'] + ext)
            except OSError:
                pass
        return k, res, info

    for k, res, info in run.pmap_proc(one, range(ncases), chunk=4):
        ctx.count('%d|%s|%d|%s' % (info['mode'], info['fmode'], info['acc'], ','.join(info['types'])[:80]), nontrivial=info['named'] and info['created'] >= 3)
        ctx.bump('names_checked', info['created'])
        if info['named'] and info['created'] >= 8:
            ctx.sample(dict(case=k, names_mode=info['mode'], file_mode=info['fmode'], constraint_types=info['types'], created_names=info['created']), cap=5)
        for key, text in res:
            ctx.violation(key, '%s (case %d mode %d files %s acc %d)' % (text[:400], k, info['mode'], info['fmode'], info['acc']), dict(case=k, seed=seed, info=info))
    ctx.assumptions += ['variables and constraints are separate name spaces (a variable may share a name with a constraint)',
                        '"derived from" is judged as: the created name equals or extends (with "_") the name of an original variable/constraint/objective/defined variable']
    return ctx.finish(RULE, floor=40)


def replay(path):
    print(open(path).read()); return 0
