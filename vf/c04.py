"""C04: solutions, duals, basis/IIS statuses and incoming values travel between the NL items and the delivered items intact, independent of history."""
import os, random, math
from fractions import Fraction as Fr
from . import mpmon, run, solfile, gen_nl, flat_eval

RULE = ("seeded random NL models = a random nonlinear/logical part (shifts the numbering of flat items) + 2..6 purely linear constraints with unique "
        "coefficient vectors (range / <= / >= / = / free) x acceptance {all native, linear rows only (range -> equality+slack), random mix} x scripted "
        "solver answers (primal over all delivered variables, duals/basis/IIS per constraint group, vectors longer than the model or absent) x "
        "incoming .sstatus/.priority/.lazy suffixes and primal/dual initial guesses x a scripted history of 6..14 further pre/postsolve calls of 7 kinds; "
        "oracle: rows are identified in the ModelAPI trace by content, then .sol and every logged transfer are compared exactly with the scripted "
        "vectors through the documented mapping (dual copied, basis low/upp reversed through the slack, IIS taken from the slack if set), counts of "
        "values equal the NL item counts, and every repetition of a call in the history returns the same vectors; non-trivial = >=2 identified rows "
        "and the conversion added variables or rows; distinct = (acceptance, row kinds, answer shape, history prefix)")

LIN = ('LinConRange', 'LinConLE', 'LinConEQ', 'LinConGE')
REV = {3: 4, 4: 3}
IISREV = {1: 3, 3: 1, 2: 2}


def prebuild():
    mpmon.exe()


def build_model(rng):
    m = gen_nl.G(rng, dict(nvars=(2, 5), ncons=(0, 2), nlcons=(0, 2), nobjs=(0, 1), ndv=(0, 1), compl=False, sos=False)).model()
    nv = len(m.vars)
    nlin = rng.randint(2, 6)
    lin_idx = []
    for t in range(nlin):
        k = rng.randint(1, min(3, nv))
        js = rng.sample(range(nv), k)
        lin = {j: Fr(rng.choice([-5, -3, -2, -1, 1, 2, 3, 5]), rng.choice([1, 2, 4])) for j in js}
        lin[js[0]] = Fr(97 + 2 * t, 8) * rng.choice([1, -1])        # unique marker coefficient
        kind = rng.choice(['range', 'range', 'le', 'ge', 'eq', 'free'] if t else ['range'])
        a = Fr(rng.randint(-24, 24), 4); b = a + Fr(rng.randint(1, 40), 4)
        lb, ub = {'range': (a, b), 'le': (-math.inf, b), 'ge': (a, math.inf), 'eq': (a, a), 'free': (-math.inf, math.inf)}[kind]
        pos = rng.randint(0, len(m.cons))
        m.cons.insert(pos, dict(expr=None, lin=lin, lb=lb, ub=ub, kind=kind, marker=True))
    if rng.random() < 0.35 and nv >= 2:       # quadratic ranges: same slack conversion with a quadratic body
        for _ in range(rng.randint(1, 2)):
            i, j = rng.sample(range(nv), 2)
            a = Fr(rng.randint(-24, 24), 4)
            m.cons.insert(rng.randint(0, len(m.cons)), dict(expr=('*', ('v', i), ('v', j)), lin={rng.randrange(nv): Fr(rng.randint(1, 9), 2)}, lb=a, ub=a + Fr(rng.randint(1, 40), 4), quadrange=True))
    return m


def build_family(rng):
    """2..4 constraints 'marker*x_j [+ c*x_l] + f <rel> rhs' whose nonlinear parts f are drawn from a pool of one or two expressions (abs, max, min of
    original variables), so the auxiliary variable and the rows/functional constraints that encode f are images of several original constraints;
    nothing else nonlinear in the model, hence every original constraint is identified by its marker and the image relation is complete"""
    m = gen_nl.Model()
    nv = rng.randint(3, 5)
    for _ in range(nv):
        if rng.random() < 0.3:
            lo = rng.randint(-3, 2); m.vars.append(dict(lb=Fr(lo), ub=Fr(lo + rng.randint(1, 4)), type='i'))
        else:
            lo = Fr(rng.randint(-8, 4), 2); m.vars.append(dict(lb=lo, ub=lo + Fr(rng.randint(1, 12), 2), type='c'))
    m.vars.sort(key=lambda v: 'cbi'.index(v['type']))
    def shared():
        k = rng.randrange(4); a, b = rng.sample(range(nv), 2)
        return [('abs', ('v', a)), ('max', [('v', a), ('v', b)]), ('min', [('v', a), ('v', b)]), ('abs', ('-', ('v', a), ('v', b)))][k]
    pool = [shared() for _ in range(rng.choice([1, 1, 2]))]
    nf = rng.randint(2, 4)
    for t in range(nf):
        f = rng.choice(pool)
        if rng.random() < 0.25 and len(pool) > 1:
            f = ('+', pool[0], pool[1])
        if rng.random() < 0.3:
            f = ('*', ('n', Fr(rng.choice([2, 3, -1, -2]))), f)
        js = rng.sample(range(nv), rng.randint(1, 2))
        lin = {j: Fr(rng.choice([-3, -2, -1, 1, 2, 3]), rng.choice([1, 2])) for j in js}
        lin[js[0]] = Fr(211 + 2 * t, 8) * rng.choice([1, -1])
        kind = rng.choice(['le', 'ge', 'eq', 'le', 'ge'])
        a = Fr(rng.randint(-24, 24), 4)
        lb, ub = {'le': (-math.inf, a), 'ge': (a, math.inf), 'eq': (a, a)}[kind]
        m.cons.append(dict(expr=f, lin=lin, lb=lb, ub=ub, family=True, mark=(js[0], lin[js[0]])))
    for t in range(rng.randint(1, 3)):       # plus ordinary marker rows
        js = rng.sample(range(nv), rng.randint(1, 3))
        lin = {j: Fr(rng.choice([-5, -3, -2, -1, 1, 2, 3, 5]), rng.choice([1, 2, 4])) for j in js}
        lin[js[0]] = Fr(97 + 2 * t, 8) * rng.choice([1, -1])
        kind = rng.choice(['range', 'le', 'ge', 'eq'])
        a = Fr(rng.randint(-24, 24), 4); b = a + Fr(rng.randint(1, 40), 4)
        lb, ub = {'range': (a, b), 'le': (-math.inf, b), 'ge': (a, math.inf), 'eq': (a, a)}[kind]
        m.cons.insert(rng.randint(0, len(m.cons)), dict(expr=None, lin=lin, lb=lb, ub=ub, kind=kind, marker=True, mark=(js[0], lin[js[0]])))
    if rng.random() < 0.5:
        m.objs.append(dict(sense=rng.randint(0, 1), expr=None, lin={rng.randrange(nv): Fr(1)}))
    return m


def con_vars(c):
    """all variable indices a delivered constraint mentions"""
    out = set()
    def walk(d, key=None):
        if isinstance(d, dict):
            for k2, v in d.items():
                walk(v, k2)
        elif isinstance(d, list):
            if key in ('v', 'v1', 'v2', 'args', 'vars'):
                out.update(int(t) for t in d)
        elif isinstance(d, int) and key in ('res', 'b', 'var') and d >= 0:
            out.add(d)
    walk(c['data'])
    return out


def images(tr, m):
    """NL constraint index -> set of (group, gidx) of the delivered constraints that encode it: the row carrying its marker coefficient and
    everything connected to that row through auxiliary variables; None if a marker is not found exactly once"""
    nv = len(m.vars)
    cv = [(c, con_vars(c)) for c in tr.cons]
    out = {}
    tops = {}
    for i, c in enumerate(m.cons):
        j, coef = c['mark']
        top = []
        for d, vs in cv:
            if d['type'] in LIN:
                b = d['data']['body']
                if any(vv == j and flat_eval.num(cc) == float(coef) for cc, vv in zip(b['c'], b['v'])):
                    top.append(d)
        if len(top) != 1:
            return None
        tops[i] = top[0]
    topkeys = {(d['group'], d['gidx']) for d in tops.values()}
    for i, c in enumerate(m.cons):
        top = [tops[i]]
        img = {(top[0]['group'], top[0]['gidx'])}
        aux = {v for v in con_vars(top[0]) if v >= nv}
        grew = True
        while grew:
            grew = False
            for d, vs in cv:
                key = (d['group'], d['gidx'])
                if key in topkeys:
                    continue                  # the row of another original constraint uses the shared auxiliary variable, it does not encode it
                if key not in img and vs & aux:
                    img.add(key); new = {v for v in vs if v >= nv} - aux
                    aux |= new; grew = True
        out[i] = img
    return out


def max_nonzero(vals):
    """the documented conflict rule of a value node: among the values arriving, the largest non-zero one; 0 if all are 0"""
    nz = [v for v in vals if v]
    return max(nz) if nz else 0


def identify(tr, m):
    """NL constraint index -> dict(gidx, slack) for purely linear constraints whose delivered row is found by content (unique both ways)."""
    nv = len(m.vars)
    rows = [c for c in tr.cons if c['type'] in LIN]
    def eff(c):
        d = c['data']
        return flat_eval.num(d['lb']), flat_eval.num(d['ub'])
    cand = {}
    for i, c in enumerate(m.cons):
        if c['expr'] is not None or not c.get('marker'):
            continue
        body = {j: float(v) for j, v in c['lin'].items() if v != 0}
        found = []
        for r in rows:
            rb = {}
            for cc, vv in zip(r['data']['body']['c'], r['data']['body']['v']):
                rb[vv] = rb.get(vv, 0.0) + flat_eval.num(cc)
            lb, ub = eff(r)
            if rb == body and lb == float(c['lb']) and ub == float(c['ub']):
                found.append(dict(gidx=r['gidx'], slack=None, type=r['type']))
            elif r['type'] == 'LinConEQ' and c['lb'] != -math.inf and c['ub'] != math.inf and c['lb'] != c['ub']:
                extra = [v for v in rb if v not in body]
                if len(extra) == 1 and extra[0] >= nv and rb[extra[0]] == 1.0 and all(rb.get(j) == body[j] for j in body) and lb == ub == float(c['ub']) \
                        and tr.lb[extra[0]] == 0 and tr.ub[extra[0]] == float(c['ub'] - c['lb']):
                    found.append(dict(gidx=r['gidx'], slack=extra[0], type='EQ+slack'))
        if len(found) == 1:
            cand[i] = found[0]
    # unique the other way
    seen = {}
    for i, f in cand.items():
        seen.setdefault(f['gidx'], []).append(i)
    return {i: f for i, f in cand.items() if len(seen[f['gidx']]) == 1}


def identify_quad(tr, m):
    """quadratic range constraints converted to equality + slack: NL index -> slack variable"""
    nv = len(m.vars)
    out = {}
    for i, c in enumerate(m.cons):
        if not c.get('quadrange'):
            continue
        a, b = c['expr'][1][1], c['expr'][2][1]
        found = []
        for r in tr.cons:
            if r['type'] != 'QuadConEQ':
                continue
            q = r['data']['body']['quad']; l = r['data']['body']['lin']
            if len(q['c']) != 1 or flat_eval.num(q['c'][0]) != 1 or sorted((q['v1'][0], q['v2'][0])) != sorted((a, b)):
                continue
            rb = {}
            for cc, vv in zip(l['c'], l['v']):
                rb[vv] = rb.get(vv, 0.0) + flat_eval.num(cc)
            body = {j: float(v) for j, v in c['lin'].items()}
            extra = [v for v in rb if v not in body]
            if len(extra) == 1 and extra[0] >= nv and rb[extra[0]] == 1.0 and all(rb.get(j) == body[j] for j in body) and flat_eval.num(r['data']['ub']) == float(c['ub']) \
                    and tr.lb[extra[0]] == 0 and tr.ub[extra[0]] == float(c['ub'] - c['lb']):
                found.append(extra[0])
        if len(found) == 1:
            out[i] = found[0]
    return out


def cyc(a, mod, n):
    return [a + (i % mod) for i in range(n)]


def main(tier, seed):
    ctx = run.Ctx('C04', tier, seed)
    exe = mpmon.exe()
    wd = ctx.workdir()
    ncases = ctx.n(8000, 200000)

    def one(k):
        rng = random.Random('%d/%d' % (seed, k))
        fam = rng.random() < 0.3
        m = build_family(rng) if fam else build_model(rng)
        nv, nalg, nlog = len(m.vars), len(m.cons), len(m.lcons)
        accsel = rng.randrange(4)
        acc = [{'*': 2}, {'*': 0, 'LinConLE': 2, 'LinConEQ': 2, 'LinConGE': 2}, None, {'*': 2, 'QuadConRange': 0, 'LinConRange': rng.choice([0, 2])}][accsel]
        if acc is None:
            acc = {'*': rng.choice([0, 2]), 'LinConLE': 2, 'LinConEQ': 2, 'LinConGE': 2}
            for t in rng.sample(['LinConRange', 'QuadConLE', 'QuadConRange', 'QuadConEQ', 'QuadConGE', 'IndicatorConstraintLinLE', 'IndicatorConstraintLinGE', 'IndicatorConstraintLinEQ',
                                 'MaxConstraint', 'MinConstraint', 'AbsConstraint', 'AndConstraint', 'OrConstraint', 'PLConstraint', 'CountConstraint', 'IfThenConstraint', 'NotConstraint',
                                 'DivConstraint', 'LinearFunctionalConstraint', 'QuadraticFunctionalConstraint', 'CondLinConLE', 'CondLinConEQ', 'PowConstraint'], rng.randrange(1, 10)):
                acc[t] = rng.choice([0, 2])
        # ---- incoming values in the NL file
        have_sst = rng.random() < 0.6
        in_vst = [rng.choice([1, 3, 4, 1, 6]) for _ in range(nv)]
        in_cst = [rng.choice([1, 3, 4, 5]) for _ in range(nalg)]
        in_pri = [rng.randint(0, 9) * 7 + j for j in range(nv)]
        in_lazy = [rng.choice([0, 1, 2, 3, -1]) for _ in range(nalg)]
        if fam:
            in_lazy = [rng.choice([0, 0, 1, 2, 3, -1, -2]) for _ in range(nalg)]
        have_x0 = rng.random() < 0.7
        x0 = {j: Fr(rng.randint(-40, 40), 4) + Fr(j, 8) for j in range(nv)} if have_x0 else {}
        d0 = {i: Fr(rng.randint(1, 400), 8) + i * 64 for i in range(nalg)} if have_x0 else {}
        if fam and have_x0:           # shared images: zeros and negative duals make the conflict rule visible
            d0 = {i: rng.choice([Fr(0), Fr(0), Fr(rng.randint(-40, 40), 4), Fr(-rng.randint(1, 40), 4)]) for i in range(nalg)}
        if have_sst:
            m.suffixes.append(dict(kind=0, float=False, name='sstatus', values=dict(enumerate(in_vst))))
            m.suffixes.append(dict(kind=1, float=False, name='sstatus', values=dict(enumerate(in_cst))))
        have_pri = rng.random() < 0.6
        if have_pri:
            m.suffixes.append(dict(kind=0, float=False, name='priority', values={j: v for j, v in enumerate(in_pri) if v}))
        have_lazy = rng.random() < 0.6
        if have_lazy:
            m.suffixes.append(dict(kind=1, float=False, name='lazy', values={i: v for i, v in enumerate(in_lazy) if v}))
        m.x0, m.d0 = x0, d0
        # ---- the scripted answer
        shape = rng.choice(['exact', 'exact', 'longer', 'nodual', 'nobasis'])
        xa, xb = Fr(rng.randint(-64, 64), 4), Fr(rng.randint(1, 31), 8)
        da, db = Fr(rng.randint(-64, 64), 4), Fr(rng.choice([-1, 1]) * rng.randint(1, 31), 8)
        extra = ' %d' % 20000 if shape == 'longer' else ''      # longer than any delivered model (approximations can add hundreds of variables; 400 was once shorter)
        S = ['status 0 scripted', 'ismip 0', 'x formula %s %s%s' % (float(xa), float(xb), extra)]
        if shape != 'nodual':
            for g, off in ((3, 0), (4, 1000), (6, 2000)):
                S.append('dual%d formula %s %s%s' % (g, float(da + off), float(db), extra))
        bvm = rng.choice([2, 4, 6]); bcm = rng.choice([3, 4, 6])
        if shape != 'nobasis':
            S.append('basis_var cycle 1 %d%s' % (bvm, extra))
            for g in (3, 4, 6):
                S.append('basis_con%d cycle 1 %d%s' % (g, bcm, extra))
        ivm = rng.choice([2, 3, 4]); icm = rng.choice([2, 4, 5])
        S.append('iis_var cycle 0 %d%s' % (ivm, extra))
        for g in (3, 4, 6):
            S.append('iis_con%d cycle 0 %d%s' % (g, icm, extra))
        ncon_src = nalg + nlog
        hx = [Fr(rng.randint(-40, 40), 4) + Fr(j, 8) for j in range(nv)]
        if rng.random() < 0.5:              # a warm start inside the variable bounds
            hx = [v['lb'] + (v['ub'] - v['lb']) * Fr(rng.randint(0, 4), 4) if v['type'] == 'c' else Fr(rng.randint(int(v['lb']), int(v['ub']))) for v in m.vars]
        hy = [Fr(rng.randint(1, 40), 4) + 16 * i for i in range(nalg)]
        if fam:
            hy = [rng.choice([Fr(0), Fr(0), Fr(rng.randint(-40, 40), 4), Fr(-rng.randint(1, 40), 4)]) for i in range(nalg)]
        hbv = [rng.choice([1, 3, 4, 6]) for _ in range(nv)]
        hbc = [rng.choice([1, 3, 4]) for _ in range(ncon_src)]
        hiv = [rng.choice([0, 1000 + j]) for j in range(nv)]
        hic = [rng.choice([0, 2000 + i, 2000 + i]) for i in range(ncon_src)]
        if fam:
            hic = [rng.choice([0, 0, 3 + i, -1 - i, rng.randint(-3, 3)]) for i in range(ncon_src)]
        S += ['hx ' + ' '.join(str(float(v)) for v in hx), 'hy ' + ' '.join(str(float(v)) for v in hy), 'hbv ' + ' '.join(map(str, hbv)), 'hbc ' + ' '.join(map(str, hbc)),
              'hiv ' + ' '.join(map(str, hiv)), 'hic ' + ' '.join(map(str, hic))]
        ops = ['postsol', 'postbasis', 'postiis', 'presol', 'prebasis', 'preint', 'prelazy']
        hist = [rng.choice(ops) for _ in range(rng.randint(6, 14))]
        for o in ops:                      # every kind at least once, at a random position
            if o not in hist:
                hist.insert(rng.randint(0, len(hist)), o)
        S.append('history ' + ' '.join(hist))
        opts = ['alg:start=%d' % rng.choice([1, 1, 2]), 'alg:basis=3', 'wantsol=1']
        r = mpmon.run_case(exe, wd, 'v%d' % k, m.to_nl(), opts=opts, acc=acc, script='\n'.join(S) + '\n', timeout=120)
        tr = flat_eval.Trace(r['trace'])
        res = []
        info = dict(acc=accsel, shape=shape, kinds=[], nident=0, nquad=0, grew=False, delivered=tr.finished, hist=hist[:4], transfers=0)
        death = run.classify_death(r)
        if death and death[0] not in ('exit:1',):
            res.append(('%s:%s' % (death[0], death[1]), 'driver died: ' + death[2][-400:]))
            return k, res, info
        if not tr.finished:
            return k, res, info
        ident = identify(tr, m)
        identq = identify_quad(tr, m)
        info['nquad'] = len(identq)
        info['nident'] = len(ident); info['kinds'] = sorted(set(f['type'] for f in ident.values()))
        info['grew'] = tr.nvars > nv or len(tr.cons) > nalg
        N = tr.nvars
        ng = {}
        for c in tr.cons:
            ng[c['group']] = ng.get(c['group'], 0) + 1
        X = [float(xa + xb * i) for i in range(N)]
        D3 = [float(da + db * i) for i in range(ng.get(3, 0))]
        BV = cyc(1, bvm, N); BC3 = cyc(1, bcm, ng.get(3, 0))
        IV = cyc(0, ivm, N); IC3 = cyc(0, icm, ng.get(3, 0))
        evs = {}
        for e in tr.other:
            evs.setdefault(e.get('op') if e.get('ev') == 'hist' else e.get('ev'), []).append(e)

        def bad(key, text):
            res.append((key, text))

        def chk_post_var(vec, exp, what):
            info['transfers'] += 1
            if len(vec) != nv:
                bad('%s:variable-value-count' % what, '%d values for %d NL variables' % (len(vec), nv)); return
            w = [j for j in range(nv) if vec[j] != exp[j]]
            if w:
                bad('%s:original-variable-gets-wrong-value' % what, 'vars %s got %s expected %s' % (w[:4], [vec[j] for j in w[:4]], [exp[j] for j in w[:4]]))

        def exp_con(kind, i, f):
            g = f['gidx']
            if kind == 'dual':
                return D3[g]
            if kind == 'basis':
                return BC3[g] if f['slack'] is None else REV.get(BV[f['slack']], BV[f['slack']])
            if kind == 'iis':
                if f['slack'] is not None and IV[f['slack']]:
                    return IISREV[IV[f['slack']]]
                return IC3[g]

        def chk_post_con(vec, kind, what, want_len):
            if len(vec) != want_len:
                bad('%s:constraint-value-count' % what, '%d values, expected %d' % (len(vec), want_len)); return
            for i, f in ident.items():
                e = exp_con(kind, i, f)
                if vec[i] != e:
                    bad('%s:linear-constraint-gets-wrong-value:%s' % (what, f['type']), 'NL constraint %d (row %d of group 3%s): got %r expected %r' % (i, f['gidx'], (', slack %d' % f['slack']) if f['slack'] is not None else '', vec[i], e))
                    break

        # ---- history: repetitions identical, then content of the first occurrence
        for op, lst in evs.items():
            if op in ops:
                def norm(e):      # a constraint group without rows may appear as an empty vector or not at all
                    return {k2: ({g: v for g, v in val.items() if v} if isinstance(val, dict) else val) for k2, val in e.items()}
                for e in lst[1:]:
                    if norm(e) != norm(lst[0]):
                        bad('history-dependence:%s' % op, 'repetition of %s returned %s after %s, first time %s' % (op, str(e)[:150], hist, str(lst[0])[:150])); break
        if set(hist) - set(evs):
            bad('history-op-not-logged', str(sorted(set(hist) - set(evs))))
        e = (evs.get('postsol') or [None])[0]
        if e:
            chk_post_var([flat_eval.num(v) for v in e['var']], X, 'postsolve-solution')
            if shape != 'nodual':
                chk_post_con([flat_eval.num(v) for v in e['con']], 'dual', 'postsolve-solution', ncon_src)
        e = (evs.get('postbasis') or [None])[0]
        if e and shape != 'nobasis':
            chk_post_var(e['var'], BV, 'postsolve-basis')
            chk_post_con(e['con'], 'basis', 'postsolve-basis', ncon_src)
        e = (evs.get('postiis') or [None])[0]
        if e:
            chk_post_var(e['var'], IV, 'postsolve-iis')
            chk_post_con(e['con'], 'iis', 'postsolve-iis', ncon_src)

        def chk_pre(e, invar, incon, what, mode):
            info['transfers'] += 1
            if invar is not None:
                v = [flat_eval.num(t) for t in e['var']]
                if len(v) < nv:
                    bad('%s:presolved-variable-vector-too-short' % what, '%d < %d' % (len(v), nv)); return
                given = list(invar)
                if mode == 'dbl':        # documented: warm start values are moved into the variable bounds
                    invar = [min(max(t, tr.lb[j]), tr.ub[j]) for j, t in enumerate(invar[:nv])]
                w = [j for j in range(min(nv, len(invar))) if v[j] != invar[j]]
                if w:
                    bad('%s:value-lands-on-wrong-variable' % what, 'vars %s got %s, given %s' % (w[:4], [v[j] for j in w[:4]], [invar[j] for j in w[:4]])); return
            if mode == 'dbl' and invar is not None and all(tr.lb[j] <= given[j] <= tr.ub[j] for j in range(nv)):
                for i, sl in identq.items():
                    c = m.cons[i]
                    body = sum(float(cf) * given[j] for j, cf in c['lin'].items()) + given[c['expr'][1][1]] * given[c['expr'][2][1]]
                    ws = min(max(float(c['ub']) - body, 0.0), float(c['ub'] - c['lb']))
                    sv = flat_eval.num(e['var'][sl]) if sl < len(e['var']) else None
                    if sv != ws:
                        bad('%s:warm-start-slack-violates-its-row:quadratic' % what, 'quadratic range constraint %d (%s <= body <= %s), body(x0)=%s: slack %d got %r, body+slack=ub needs %r' % (i, c['lb'], c['ub'], body, sl, sv, ws)); return
            if incon is not None:
                c3 = [flat_eval.num(t) for t in e['con'].get('3', [])]
                for i, f in ident.items():
                    if i >= len(incon):
                        continue
                    g = f['gidx']
                    got = c3[g] if g < len(c3) else None
                    want = incon[i]
                    if mode == 'basis' and f['slack'] is not None:
                        want = 5
                        sv = e['var'][f['slack']] if f['slack'] < len(e['var']) else None
                        if sv != REV.get(incon[i], incon[i]):
                            bad('%s:slack-status-wrong' % what, 'range constraint %d status %d: slack %d got %r' % (i, incon[i], f['slack'], sv)); return
                    if mode == 'dbl' and f['slack'] is not None and invar is not None and all(tr.lb[j] <= given[j] <= tr.ub[j] for j in range(nv)):
                        c = m.cons[i]
                        body = sum(float(cf) * given[j] for j, cf in c['lin'].items())
                        ws = min(max(float(c['ub']) - body, 0.0), float(c['ub'] - c['lb']))
                        sv = flat_eval.num(e['var'][f['slack']]) if f['slack'] < len(e['var']) else None
                        if sv != ws:
                            bad('%s:warm-start-slack-violates-its-row' % what, 'range constraint %d (%s <= body <= %s), body(x0)=%s: slack %d got %r, body+slack=ub needs %r' % (i, c['lb'], c['ub'], body, f['slack'], sv, ws)); return
                    if got != want:
                        bad('%s:value-lands-on-wrong-row:%s' % (what, f['type']), 'NL constraint %d -> row %d of group 3: got %r, expected %r' % (i, g, got, want)); return

        img = images(tr, m) if fam else None
        info['fam'] = bool(fam); info['fam_images'] = 0; info['fam_shared'] = 0
        owners = {}
        if img:
            for i, st in img.items():
                for key in st:
                    owners.setdefault(key, []).append(i)
            info['fam_images'] = len(owners); info['fam_shared'] = sum(1 for o in owners.values() if len(o) > 1)

        def chk_images(e, incon, what, mode):
            """a value given for an original constraint lands on every delivered constraint that encodes it; a delivered constraint shared by
            several original ones receives the documented combination (largest non-zero value)"""
            if not img or incon is None:
                return
            info['transfers'] += 1
            for (g, gi), own in sorted(owners.items()):
                vec = e['con'].get(str(g), [])
                got = flat_eval.num(vec[gi]) if gi < len(vec) else 0
                if mode == 'basis' and any(m.cons[i].get('kind') == 'range' for i in own):
                    continue                    # range rows through a slack have their own mapping (checked above)
                want = max_nonzero([incon[i] for i in own if i < len(incon)])
                if got != want:
                    bad('%s:value-does-not-reach-the-images-of-its-constraint:%s' % (what, 'shared' if len(own) > 1 else 'single'),
                        'delivered constraint %d of group %d encodes NL constraints %s given %s: got %r, expected %r (largest non-zero)' % (gi, g, own, [incon[i] for i in own if i < len(incon)], got, want)); return

        for nm, invar, incon, mode in (('presol', [float(v) for v in hx], [float(v) for v in hy], 'dbl'), ('prebasis', hbv, hbc, 'basis'), ('preint', hiv, hic, 'int'), ('prelazy', None, hic, 'int')):
            e = (evs.get(nm) or [None])[0]
            if e:
                chk_pre(e, invar, incon, 'history-' + nm, mode)
                chk_images(e, incon, 'history-' + nm, mode)
        # ---- the real incoming flow
        for e in evs.get('SetBasis', []):
            if e['in_var'] != in_vst or e['in_con'][:nalg] != in_cst:
                bad('incoming-basis-suffix-read-wrong', 'in_var %s in_con %s, file %s %s' % (e['in_var'], e['in_con'], in_vst, in_cst))
            else:
                chk_pre(e, in_vst, in_cst, 'SetBasis', 'basis')
        if have_sst and not evs.get('SetBasis') and not (have_x0 and 'alg:start=2' in opts):
            bad('basis-suffix-not-forwarded', 'sstatus given, alg:basis=3, no SetBasis call')
        for e in evs.get('VarPriorities', []):
            chk_pre(e, in_pri, None, 'VarPriorities', 'int')
        if have_pri and any(in_pri) and not evs.get('VarPriorities'):
            bad('priorities-not-forwarded', 'priority suffix given, no VarPriorities call')
        for e in evs.get('MarkLazyOrUserCuts', []):
            chk_pre(e, None, in_lazy, 'MarkLazyOrUserCuts', 'int')
            chk_images(e, in_lazy, 'MarkLazyOrUserCuts', 'int')
        if have_lazy and any(in_lazy) and not evs.get('MarkLazyOrUserCuts'):
            bad('lazy-flags-not-forwarded', 'lazy suffix given, no MarkLazyOrUserCuts call')
        fx0 = [float(x0.get(j, 0)) for j in range(nv)]; fd0 = [float(d0.get(i, 0)) for i in range(nalg)]
        for e in evs.get('AddPrimalDualStart', []):
            chk_pre(e, fx0, fd0, 'AddPrimalDualStart', 'dbl')
            chk_images(e, fd0, 'AddPrimalDualStart', 'dbl')
        for e in evs.get('AddMIPStart', []):
            chk_pre(e, fx0, None, 'AddMIPStart', 'dbl')
        if have_x0 and not evs.get('AddMIPStart'):
            bad('mip-start-not-forwarded', 'initial values given, no AddMIPStart call')
        # ---- the .sol file
        if r['sol'] is None:
            bad('no-sol-file', r['out'][-200:])
        else:
            try:
                s = solfile.parse(r['sol'])
            except solfile.SolError as ex:
                bad('sol-file-malformed', str(ex)); s = None
            if s:
                info['transfers'] += 1
                if s['n_var'] != nv or s['n_con'] != nalg:
                    bad('sol-dimensions', 'n_var %d n_con %d for a model with %d variables, %d algebraic constraints' % (s['n_var'], s['n_con'], nv, nalg))
                elif s['n_primal'] != nv:
                    bad('sol-primal-count', '%d primal values for %d variables' % (s['n_primal'], nv))
                else:
                    chk_post_var(s['primals'], X, 'sol-file')
                    if shape != 'nodual':
                        if s['n_dual'] != nalg:
                            bad('sol-dual-count', '%d duals for %d algebraic constraints' % (s['n_dual'], nalg))
                        else:
                            chk_post_con(s['duals'] + [None] * nlog, 'dual', 'sol-file', ncon_src)
                    if shape != 'nobasis':
                        sv = [x for x in s['suffixes'] if x['name'] == 'sstatus' and (x['kind'] & 3) == 0]
                        sc = [x for x in s['suffixes'] if x['name'] == 'sstatus' and (x['kind'] & 3) == 1]
                        if len(sv) != 1 or len(sc) != 1:
                            bad('sol-basis-suffix-missing', 'sstatus suffixes var %d con %d' % (len(sv), len(sc)))
                        else:
                            vv = [0] * nv
                            okidx = True
                            for i, v in sv[0]['values']:
                                if 0 <= i < nv:
                                    vv[i] = int(v)
                                else:
                                    okidx = False
                            cv = [0] * ncon_src
                            for i, v in sc[0]['values']:
                                if 0 <= i < ncon_src:
                                    cv[i] = int(v)
                                else:
                                    okidx = False
                            if not okidx:
                                bad('sol-suffix-index-out-of-range', 'sstatus')
                            chk_post_var(vv, BV, 'sol-file-sstatus')
                            chk_post_con(cv, 'basis', 'sol-file-sstatus', ncon_src)
        if not res:
            for ext in ('.nl', '.sol', '.trace', '.script'):
                try:
                    os.unlink(r['base'] + ext)
                except OSError:
                    pass
        return k, res, info

    for k, res, info in run.pmap_proc(one, range(ncases), chunk=4):
        ctx.count('%d|%s|%s|%s' % (info['acc'], ','.join(info['kinds']), info['shape'], ','.join(info['hist'])), nontrivial=info['nident'] >= 2 and info['grew'])
        ctx.bump('identified_linear_rows', info['nident'])
        ctx.bump('shared_image_models', 1 if info.get('fam') else 0)
        ctx.bump('shared_image_models_delivered_constraints_judged', info.get('fam_images', 0))
        ctx.bump('shared_image_models_delivered_constraints_with_several_owners', info.get('fam_shared', 0))
        ctx.bump('transfers_checked', info['transfers'])
        ctx.bump('quadratic_ranges_through_slack', info['nquad'])
        ctx.bump('rows_through_slack', 1 if 'EQ+slack' in info['kinds'] else 0)
        if info['nident'] >= 4 and 'EQ+slack' in info['kinds']:
            ctx.sample(dict(case=k, acceptance=info['acc'], row_kinds=info['kinds'], answer_shape=info['shape'], identified=info['nident'], transfers=info['transfers']), cap=5)
        seen = set()
        for key, text in res:
            if key in seen:
                continue
            seen.add(key)
            ctx.violation(key, '%s (case %d acc %d shape %s)' % (text[:500], k, info['acc'], info['shape']), dict(case=k, seed=seed, info=info))
    ctx.assumptions += ['only purely linear NL constraints whose delivered row is identified uniquely by content are judged for values; other constraints only for counts and history independence',
                        'scripted IIS statuses of variables are restricted to non/low/fix/upp (the slack mapping rejects other codes by design)',
                        'the primal value given to a slack variable by a warm start is not judged']
    return ctx.finish(RULE, floor=40)


def replay(path):
    print(open(path).read()); return 0
