"""Random NL models in the exactly-reformulable fragment, their text-NL encoding and an independent exact evaluator
(fractions).  Shares nothing with mp: opcodes are transcribed from the NL format documentation ("Writing .nl files")."""
from fractions import Fraction as Fr
import itertools, math

OPC = {'+': 0, '-': 1, '*': 2, '/': 3, 'mod': 4, 'pow': 5, 'less': 6, 'min': 11, 'max': 12, 'floor': 13, 'ceil': 14, 'abs': 15, 'neg': 16,
       'or': 20, 'and': 21, 'lt': 22, 'le': 23, 'eq': 24, 'ge': 28, 'gt': 29, 'ne': 30, 'not': 34, 'if': 35,
       'tanh': 37, 'tan': 38, 'sqrt': 39, 'sinh': 40, 'sin': 41, 'log10': 42, 'log': 43, 'exp': 44, 'cosh': 45, 'cos': 46, 'atanh': 47, 'atan2': 48,
       'atan': 49, 'asinh': 50, 'asin': 51, 'acosh': 52, 'acos': 53, 'sum': 54, 'intdiv': 55, 'precision': 56, 'round': 57, 'trunc': 58,
       'count': 59, 'numberof': 60, 'atleast': 62, 'atmost': 63, 'pl': 64, 'exactly': 66, '!atleast': 67, '!atmost': 68, '!exactly': 69,
       'forall': 70, 'exists': 71, 'implies': 72, 'iff': 73, 'alldiff': 74, '!alldiff': 75, 'powc': 76, '^2': 77, 'cpow': 78}
REL = ('lt', 'le', 'eq', 'ge', 'gt', 'ne')
LCOUNT = ('atleast', 'atmost', 'exactly', '!atleast', '!atmost', '!exactly')
UNARY_SMOOTH = ('exp', 'log', 'sin', 'cos', 'tan', 'asin', 'acos', 'atan', 'sinh', 'cosh', 'tanh', 'asinh', 'acosh', 'atanh', 'sqrt', 'log10')


class DomainError(ArithmeticError):
    pass


def gen_pow(b, p):
    """b**p: exact for Fractions with integer exponent, float otherwise; DomainError where the real power is undefined."""
    if isinstance(p, Fr) and p.denominator == 1 and isinstance(b, Fr) and abs(p) <= 64 and (b.numerator.bit_length() + b.denominator.bit_length()) * abs(p) <= 4096:
        if b == 0 and p < 0:
            raise DomainError('0**negative')
        return b ** int(p)
    bf, pf = float(b), float(p)
    if bf < 0 and pf != int(pf):
        raise DomainError('negative**fractional')
    if bf == 0 and pf < 0:
        raise DomainError('0**negative')
    try:
        return math.pow(bf, pf)
    except (OverflowError, ValueError):
        raise DomainError('pow overflow')


def smooth(k, a):
    a = float(a)
    try:
        if k == 'log10':
            return math.log10(a)
        if k == 'sqrt':
            return math.sqrt(a)
        return getattr(math, k)(a)
    except (ValueError, OverflowError):
        raise DomainError(k + ' domain')


def fnum(v):
    """NL text of a number (exact for the dyadic values we use)."""
    if isinstance(v, Fr):
        v = float(v)
    if v == math.inf:
        return 'Infinity'
    if v == -math.inf:
        return '-Infinity'
    r = repr(float(v))
    return r[:-2] if r.endswith('.0') else r


class Model:
    def __init__(self):
        self.vars = []        # dict(lb, ub, type in 'c','b','i')   order: continuous..., binary..., integer...
        self.cons = []        # dict(expr or None, lin {j:coef}, lb, ub)   algebraic
        self.lcons = []       # logical expr
        self.objs = []        # dict(sense 0 min/1 max, expr or None, lin {j:coef})
        self.dvars = []       # dict(lin {j:coef}, expr)
        self.suffixes = []    # dict(kind 0..3, name, float(bool), values {idx: val})
        self.compl = {}       # con index -> (var index, flags)
        self.x0 = {}
        self.d0 = {}
        self.name = 'gen'
        self.mingap = math.inf   # smallest non-zero |lhs-rhs| seen in a comparison since it was last reset (strict-comparison epsilon guard)

    # ---------------------------------------------------------------- NL text
    def expr_nl(self, e, out):
        k = e[0]
        if k == 'n':
            out.append('n' + fnum(e[1]))
        elif k == 'v':
            out.append('v%d' % e[1])
        elif k == 'dv':
            out.append('v%d' % (len(self.vars) + e[1]))
        elif k in ('T', 'F'):
            out.append('n1' if k == 'T' else 'n0')
        elif k in ('sum', 'min', 'max', 'forall', 'exists', 'alldiff', '!alldiff', 'count'):
            out.append('o%d' % OPC[k]); out.append(str(len(e[1])))
            for a in e[1]:
                self.expr_nl(a, out)
        elif k == 'numberof':
            out.append('o%d' % OPC[k]); out.append(str(len(e[1])))
            for a in e[1]:
                self.expr_nl(a, out)
        elif k in LCOUNT:
            out.append('o%d' % OPC[k]); self.expr_nl(e[1], out); self.expr_nl(e[2], out)
        elif k == 'pl':
            slopes, bps, var = e[1], e[2], e[3]
            out.append('o64'); out.append(str(len(slopes)))
            for i, b in enumerate(bps):
                out.append('n' + fnum(slopes[i])); out.append('n' + fnum(b))
            out.append('n' + fnum(slopes[-1])); self.expr_nl(var, out)
        else:
            out.append('o%d' % OPC[k])
            for a in e[1:]:
                self.expr_nl(a, out)

    def to_nl(self, opts=(0, 1, 0)):
        nv, nc, no, nl = len(self.vars), len(self.cons), len(self.objs), len(self.lcons)
        nbv = sum(1 for v in self.vars if v['type'] == 'b'); niv = sum(1 for v in self.vars if v['type'] == 'i')
        nlc = sum(1 for c in self.cons if c['expr'] is not None); nlo = sum(1 for o in self.objs if o['expr'] is not None)
        nzc = sum(len(c['lin']) for c in self.cons); nzo = sum(len(o['lin']) for o in self.objs)
        nranges = sum(1 for c in self.cons if c['lb'] != -math.inf and c['ub'] != math.inf and c['lb'] != c['ub'])
        neqns = sum(1 for c in self.cons if c['lb'] == c['ub'])
        L = ['g%d %s\t# problem %s' % (len(opts), ' '.join(map(str, opts)), self.name),
             ' %d %d %d %d %d %d' % (nv, nc, no, nranges, neqns, nl),
             ' %d %d %d 0 0 0' % (nlc, nlo, len(self.compl)), ' 0 0', ' 0 0 0', ' 0 0 0 1', ' %d %d 0 0 0' % (nbv, niv), ' %d %d' % (nzc, nzo), ' 0 0',
             ' %d 0 0 0 0' % len(self.dvars)]
        for s in self.suffixes:
            L.append('S%d %d %s' % (s['kind'] | (4 if s['float'] else 0), len(s['values']), s['name']))
            for i, v in sorted(s['values'].items()):
                L.append('%d %s' % (i, fnum(v) if s['float'] else str(int(v))))
        for i, d in enumerate(self.dvars):
            L.append('V%d %d 0' % (nv + i, len(d['lin'])))
            for j, c in sorted(d['lin'].items()):
                L.append('%d %s' % (j, fnum(c)))
            self.expr_nl(d['expr'], L)
        for i, c in enumerate(self.cons):
            L.append('C%d' % i)
            if c['expr'] is None:
                L.append('n0')
            else:
                self.expr_nl(c['expr'], L)
        for i, e in enumerate(self.lcons):
            L.append('L%d' % i); self.expr_nl(e, L)
        for i, o in enumerate(self.objs):
            L.append('O%d %d' % (i, o['sense']))
            if o['expr'] is None:
                L.append('n0')
            else:
                self.expr_nl(o['expr'], L)
        if self.d0:
            L.append('d%d' % len(self.d0)); L += ['%d %s' % (i, fnum(v)) for i, v in sorted(self.d0.items())]
        if self.x0:
            L.append('x%d' % len(self.x0)); L += ['%d %s' % (i, fnum(v)) for i, v in sorted(self.x0.items())]
        if nc:
            L.append('r')
            for i, c in enumerate(self.cons):
                if i in self.compl:
                    L.append('5 %d %d' % (self.compl[i][1], self.compl[i][0] + 1))
                else:
                    L.append(self.bound_nl(c['lb'], c['ub']))
        L.append('b')
        for v in self.vars:
            L.append(self.bound_nl(v['lb'], v['ub']))
        if nv > 1:
            cnt = [0] * nv
            for c in self.cons:
                for j in c['lin']:
                    cnt[j] += 1
            L.append('k%d' % (nv - 1)); cum = 0
            for j in range(nv - 1):
                cum += cnt[j]; L.append(str(cum))
        elif nv == 1:
            L.append('k0')
        for i, c in enumerate(self.cons):
            if c['lin']:
                L.append('J%d %d' % (i, len(c['lin']))); L += ['%d %s' % (j, fnum(v)) for j, v in sorted(c['lin'].items())]
        for i, o in enumerate(self.objs):
            if o['lin']:
                L.append('G%d %d' % (i, len(o['lin']))); L += ['%d %s' % (j, fnum(v)) for j, v in sorted(o['lin'].items())]
        return '\n'.join(L) + '\n'

    @staticmethod
    def bound_nl(lb, ub):
        if lb == -math.inf and ub == math.inf:
            return '3'
        if lb == -math.inf:
            return '1 ' + fnum(ub)
        if ub == math.inf:
            return '2 ' + fnum(lb)
        if lb == ub:
            return '4 ' + fnum(lb)
        return '0 %s %s' % (fnum(lb), fnum(ub))

    # ---------------------------------------------------------------- exact evaluation
    def ev(self, e, x, dv):
        """Numeric value (Fraction) of expression e at point x (list of Fractions); dv = values of defined variables."""
        k = e[0]
        if k == 'n':
            return Fr(e[1])
        if k == 'v':
            return x[e[1]]
        if k == 'dv':
            return dv[e[1]]
        if k == 'neg':
            return -self.ev(e[1], x, dv)
        if k == 'abs':
            return abs(self.ev(e[1], x, dv))
        if k == '+':
            return self.ev(e[1], x, dv) + self.ev(e[2], x, dv)
        if k == '-':
            return self.ev(e[1], x, dv) - self.ev(e[2], x, dv)
        if k == '*':
            return self.ev(e[1], x, dv) * self.ev(e[2], x, dv)
        if k == '/':
            d = self.ev(e[2], x, dv)
            if d == 0:
                raise ZeroDivisionError
            return self.ev(e[1], x, dv) / d
        if k == '^2':
            return self.ev(e[1], x, dv) ** 2
        if k == 'powc':
            p = self.ev(e[2], x, dv)
            return gen_pow(self.ev(e[1], x, dv), p)
        if k == 'pow':
            return gen_pow(self.ev(e[1], x, dv), self.ev(e[2], x, dv))
        if k == 'cpow':
            return gen_pow(self.ev(e[1], x, dv), self.ev(e[2], x, dv))
        if k in UNARY_SMOOTH:
            return smooth(k, self.ev(e[1], x, dv))
        if k == 'sum':
            return sum((self.ev(a, x, dv) for a in e[1]), Fr(0))
        if k == 'min':
            return min(self.ev(a, x, dv) for a in e[1])
        if k == 'max':
            return max(self.ev(a, x, dv) for a in e[1])
        if k == 'if':
            return self.ev(e[2], x, dv) if self.lg(e[1], x, dv) else self.ev(e[3], x, dv)
        if k == 'count':
            return Fr(sum(1 for a in e[1] if self.lg(a, x, dv)))
        if k == 'numberof':
            v0 = self.ev(e[1][0], x, dv)
            return Fr(sum(1 for a in e[1][1:] if self.ev(a, x, dv) == v0))
        if k == 'pl':
            return pl_eval(e[1], e[2], self.ev(e[3], x, dv))
        raise ValueError('numeric op %r' % (k,))

    def lg(self, e, x, dv):
        k = e[0]
        if k == 'T':
            return True
        if k == 'F':
            return False
        if k in REL:
            a, b = self.ev(e[1], x, dv), self.ev(e[2], x, dv)
            if a != b and abs(a - b) < self.mingap:
                self.mingap = abs(a - b)
            return {'lt': a < b, 'le': a <= b, 'eq': a == b, 'ge': a >= b, 'gt': a > b, 'ne': a != b}[k]
        if k == 'and':
            return self.lg(e[1], x, dv) and self.lg(e[2], x, dv)
        if k == 'or':
            return self.lg(e[1], x, dv) or self.lg(e[2], x, dv)
        if k == 'not':
            return not self.lg(e[1], x, dv)
        if k == 'iff':
            return self.lg(e[1], x, dv) == self.lg(e[2], x, dv)
        if k == 'implies':
            return self.lg(e[2], x, dv) if self.lg(e[1], x, dv) else self.lg(e[3], x, dv)
        if k == 'forall':
            return all(self.lg(a, x, dv) for a in e[1])
        if k == 'exists':
            return any(self.lg(a, x, dv) for a in e[1])
        if k in ('alldiff', '!alldiff'):
            vals = [self.ev(a, x, dv) for a in e[1]]
            r = len(set(vals)) == len(vals)
            return r if k == 'alldiff' else not r
        if k in LCOUNT:
            n = self.ev(e[1], x, dv); c = self.ev(e[2], x, dv)
            base = k.lstrip('!')
            r = {'atleast': n <= c, 'atmost': n >= c, 'exactly': n == c}[base]    # "atleast n (..)": count >= n
            return (not r) if k.startswith('!') else r
        raise ValueError('logical op %r' % (k,))

    def defvars(self, x):
        dv = []
        for d in self.dvars:
            dv.append(sum((Fr(c) * x[j] for j, c in d['lin'].items()), Fr(0)) + self.ev(d['expr'], x, dv))
        return dv

    def evaluate(self, x):
        """x: list of Fractions for the original variables.  Returns dict(feasible, objs[list of Fraction], violated[list of tags])."""
        dv = self.defvars(x)
        viol = []
        for j, v in enumerate(self.vars):
            if x[j] < v['lb'] or x[j] > v['ub']:
                viol.append(('varbound', j))
            if v['type'] != 'c' and x[j].denominator != 1:
                viol.append(('integrality', j))
        bodies = []
        for i, c in enumerate(self.cons):
            b = sum((Fr(cf) * x[j] for j, cf in c['lin'].items()), Fr(0))
            if c['expr'] is not None:
                b += self.ev(c['expr'], x, dv)
            bodies.append(b)
            if i in self.compl:
                j, flags = self.compl[i]
                if not compl_ok(b, x[j], self.vars[j]['lb'], self.vars[j]['ub'], flags):
                    viol.append(('compl', i))
            elif b < c['lb'] or b > c['ub']:
                viol.append(('algcon', i))
        for i, e in enumerate(self.lcons):
            if not self.lg(e, x, dv):
                viol.append(('logcon', i))
        objs = []
        for o in self.objs:
            v = sum((Fr(cf) * x[j] for j, cf in o['lin'].items()), Fr(0))
            if o['expr'] is not None:
                v += self.ev(o['expr'], x, dv)
            objs.append(v)
        viol += sos_violations(self, x)
        return dict(feasible=not viol, objs=objs, violated=viol, bodies=bodies, dv=dv)


def pl_eval(slopes, bps, x):
    """AMPL piecewise-linear term <<bps; slopes>> x : f(0)=0, slope slopes[i] on the i-th interval."""
    x = Fr(x); bps = [Fr(b) for b in bps]; slopes = [Fr(s) for s in slopes]

    def F(t):   # integral of the slope function from bps[0] to t (reference point cancels out below)
        acc = Fr(0); prev = None
        # integrate from -inf side reference: use first breakpoint as origin
        if t <= bps[0]:
            return slopes[0] * (t - bps[0])
        acc = Fr(0)
        for i, b in enumerate(bps):
            nxt = bps[i + 1] if i + 1 < len(bps) else None
            if nxt is None or t <= nxt:
                return acc + slopes[i + 1] * (t - b)
            acc += slopes[i + 1] * (nxt - b)
        return acc
    return F(x) - F(Fr(0))


def compl_ok(body, xv, lb, ub, flags):
    """lb <= x <= ub  complements  body (AMPL semantics, decided by the variable's own bounds):
    x == lb -> body >= 0 ; x == ub -> body <= 0 ; lb < x < ub -> body == 0 ; a variable at both bounds (fixed) leaves body free."""
    at_lb = lb != -math.inf and xv == lb
    at_ub = ub != math.inf and xv == ub
    if at_lb and at_ub:
        return True
    if at_lb:
        return body >= 0
    if at_ub:
        return body <= 0
    return body == 0


def sos_violations(m, x):
    """SOS1/SOS2 sets given through .sosno/.ref suffixes on variables."""
    sosno = next((s for s in m.suffixes if s['name'] == 'sosno' and s['kind'] == 0), None)
    ref = next((s for s in m.suffixes if s['name'] == 'ref' and s['kind'] == 0), None)
    out = []
    if not sosno or not ref:
        return out
    groups = {}
    for j, g in sosno['values'].items():
        if g:
            groups.setdefault(int(g), []).append(j)
    for g, js in groups.items():
        js = sorted(js, key=lambda j: ref['values'].get(j, 0))
        nz = [k for k, j in enumerate(js) if x[j] != 0]
        if g > 0:
            if len(nz) > 1:
                out.append(('sos1', g))
        else:
            if len(nz) > 2 or (len(nz) == 2 and nz[1] - nz[0] != 1):
                out.append(('sos2', g))
    return out


# ------------------------------------------------------------------------------------------------ random generation
class G:
    def __init__(self, rng, profile=None):
        self.r = rng
        self.p = dict(nvars=(2, 5), ncons=(1, 4), nlcons=(0, 3), nobjs=(0, 2), depth=3, ndv=(0, 2), pl=True, compl=True, sos=True, quad=True,
                      logical=True, divc=True, count=True, minmax=True, absf=True, ifelse=True, smooth=False, pow_int=True)
        if profile:
            self.p.update(profile)

    def q(self, lo=-8, hi=8, step=4):      # dyadic constant k/step
        return Fr(self.r.randint(lo * step, hi * step), step)

    def small(self):
        return Fr(self.r.randint(-6, 6), self.r.choice([1, 1, 2, 4]))

    def model(self):
        r, p = self.r, self.p
        m = Model()
        nv = r.randint(*p['nvars'])
        types = sorted((r.choice('ccbii') for _ in range(nv)), key='cbi'.index)
        for t in types:
            if t == 'b':
                m.vars.append(dict(lb=Fr(0), ub=Fr(1), type='b'))
            elif t == 'i':
                lo = r.randint(-3, 2); m.vars.append(dict(lb=Fr(lo), ub=Fr(lo + r.randint(0, 4)), type='i'))
            else:
                lo = Fr(r.randint(-8, 4), r.choice([1, 2, 4])); w = Fr(r.randint(0, 12), 4)
                m.vars.append(dict(lb=lo, ub=lo + w, type='c'))
        self.m = m
        for _ in range(r.randint(*p['ndv'])):
            m.dvars.append(dict(lin=self.lin(2), expr=self.num(r.randint(1, 2))))
        for _ in range(r.randint(*p['ncons'])):
            e = self.num(r.randint(1, p['depth'])) if r.random() < 0.7 else None
            lin = self.lin(3) if (e is None or r.random() < 0.6) else {}
            kind = r.randint(0, 4); a = self.q(-6, 6); b = a + Fr(r.randint(1, 16), 4)
            lb, ub = [(a, b), (-math.inf, b), (a, math.inf), (a, a), (a, b)][kind]
            m.cons.append(dict(expr=e, lin=lin, lb=lb, ub=ub))
        if p['compl'] and m.cons and r.random() < 0.25:
            # "lb <= x_j <= ub complements body_i": x_j at lb -> body >= 0, at ub -> body <= 0, strictly inside -> body == 0
            i = r.randrange(len(m.cons)); j = r.randrange(nv)
            v = m.vars[j]
            m.compl[i] = (j, (1 if v['lb'] != -math.inf else 0) | (2 if v['ub'] != math.inf else 0))
        if p['sos'] and nv >= 3 and r.random() < 0.25:
            k = r.randint(3, nv); js = r.sample(range(nv), k)
            g = r.choice([1, -1])          # > 0: SOS1, < 0: SOS2
            w = r.sample(range(1, 9), k)
            m.suffixes.append(dict(kind=0, float=False, name='sosno', values={j: g for j in js}))
            m.suffixes.append(dict(kind=0, float=True, name='ref', values={j: Fr(w[t]) for t, j in enumerate(js)}))
        if p['logical']:
            for _ in range(r.randint(*p['nlcons'])):
                m.lcons.append(self.logical(r.randint(1, p['depth'])))
        for _ in range(r.randint(*p['nobjs'])):
            e = self.num(r.randint(1, p['depth'])) if r.random() < 0.6 else None
            m.objs.append(dict(sense=r.randint(0, 1), expr=e, lin=self.lin(3) if (e is None or r.random() < 0.7) else {}))
        if p.get('cone') and r.random() < p['cone']:
            self.add_cone(m)
        return m

    def add_cone(self, m):
        """a constraint of second-order-cone shape (the converter may recognise it and pass a cone instead of the quadratic row):
        sum c_i x_i^2 [+ k^2] <= c_0 x_0^2  or the rotated  sum c_i x_i^2 <= c x_0 x_1; the head variables are usually, not always, nonnegative"""
        r = self.r
        nv = len(m.vars)
        conts = [j for j, v in enumerate(m.vars) if v['type'] == 'c']
        if nv < 2 or not conts:
            return
        rotated = len(conts) >= 2 and nv >= 3 and r.random() < 0.4
        heads = r.sample(conts, 2 if rotated else 1)
        for h in heads:
            if r.random() < 0.75:
                m.vars[h]['lb'] = Fr(0); m.vars[h]['ub'] = Fr(r.randint(1, 16), 4)
            elif r.random() < 0.5:
                m.vars[h]['lb'] = Fr(-r.randint(1, 8), 4); m.vars[h]['ub'] = Fr(r.randint(0, 12), 4)
        others = [j for j in range(nv) if j not in heads]
        tail = r.sample(others, r.randint(1, len(others)))
        for j in tail:                       # tails usually straddle 0, so that the apex region of the cone is inside the domain
            v = m.vars[j]
            if v['type'] != 'b' and r.random() < 0.6:
                if v['type'] == 'i':
                    v['lb'], v['ub'] = Fr(-r.randint(0, 2)), Fr(r.randint(0, 2))
                else:
                    v['lb'], v['ub'] = Fr(-r.randint(0, 8), 4), Fr(r.randint(0, 8), 4)
        coef = lambda: r.choice([Fr(1), Fr(1), Fr(4), Fr(1, 4), Fr(2), Fr(9, 4), Fr(3)])
        def sq(c, j, k=None):
            t = ('*', ('v', j), ('v', j if k is None else k))
            return t if (c == 1 and r.random() < 0.6) else ('*', ('n', c), t)
        terms = [sq(coef(), j) for j in tail]
        if r.random() < 0.2:
            terms.append(('n', Fr(r.choice([1, 4, 9]), 4)))
        hc = coef() if not rotated else r.choice([Fr(1), Fr(2), Fr(2), Fr(4), Fr(1, 2)])
        sgn = r.choice([1, -1])          # 1: tail - head <= 0;  -1: head - tail >= 0
        head = sq(-hc * sgn, heads[0], heads[1] if rotated else None)
        if sgn < 0:
            terms = [('neg', t) if t[0] != 'n' else ('n', -t[1]) for t in terms]
        terms.append(head)
        r.shuffle(terms)
        e = ('sum', terms) if len(terms) > 2 else ('+', terms[0], terms[1])
        m.cons.append(dict(expr=e, lin={}, lb=-math.inf if sgn > 0 else Fr(0), ub=Fr(0) if sgn > 0 else math.inf, cone=True))

    def lin(self, maxterms):
        nv = len(self.m.vars); k = self.r.randint(1, min(nv, maxterms))
        return {j: (self.small() or Fr(1)) for j in self.r.sample(range(nv), k)}

    def var(self):
        if self.m.dvars and self.r.random() < 0.2:
            return ('dv', self.r.randrange(len(self.m.dvars)))
        return ('v', self.r.randrange(len(self.m.vars)))

    def num(self, d):
        r, p = self.r, self.p
        if d <= 0:
            return self.var() if r.random() < 0.7 else ('n', self.q(-4, 4))
        choices = ['+', '-', 'lin*', 'neg', 'sum']
        if p['absf']:
            choices += ['abs']
        if p['minmax']:
            choices += ['min', 'max']
        if p['quad']:
            choices += ['*', '^2']
        if p['divc']:
            choices += ['/']
        if p['ifelse'] and p['logical']:
            choices += ['if']
        if p['count'] and p['logical']:
            choices += ['count', 'numberof']
        if p['pl']:
            choices += ['pl']
        if p['pow_int']:
            choices += ['powc']
        k = r.choice(choices)
        if k in ('+', '-'):
            return (k, self.num(d - 1), self.num(d - 1))
        if k == 'lin*':
            return ('*', ('n', self.small() or Fr(2)), self.num(d - 1))
        if k == '*':
            return ('*', self.num(0), self.num(min(d - 1, 1)))
        if k == '^2':
            return ('^2', self.num(min(d - 1, 1)))
        if k == 'powc':
            return ('powc', self.num(0), ('n', Fr(r.choice([2, 3, 4]))))
        if k == 'neg':
            return ('neg', self.num(d - 1))
        if k == 'abs':
            return ('abs', self.num(d - 1))
        if k in ('min', 'max'):
            return (k, [self.num(d - 1) for _ in range(r.randint(1, 3))])
        if k == 'sum':
            return ('sum', [self.num(d - 1) for _ in range(r.randint(3, 4))])
        if k == '/':
            return ('/', self.num(d - 1), ('n', Fr(r.choice([1, -1, 2, -2, 4, -4, Fr(1, 2), Fr(-1, 2)]))))
        if k == 'if':
            return ('if', self.logical(d - 1), self.num(d - 1), self.num(d - 1))
        if k == 'count':
            return ('count', [self.logical(d - 1) for _ in range(r.randint(1, 3))])
        if k == 'numberof':
            first = ('n', Fr(r.randint(-2, 3))) if r.random() < 0.6 else self.num(0)
            return ('numberof', [first] + [self.num(min(d - 1, 1)) for _ in range(r.randint(1, 3))])
        if k == 'pl':
            nb = r.randint(1, 3); b = Fr(r.randint(-8, 4), 2); bps = []
            for _ in range(nb):
                bps.append(b); b += Fr(r.randint(1, 6), 2)
            slopes = [Fr(r.randint(-6, 6), 2) for _ in range(nb + 1)]
            return ('pl', slopes, bps, ('v', r.randrange(len(self.m.vars))))
        raise AssertionError(k)

    def logical(self, d):
        r = self.r
        if d <= 0 or r.random() < 0.35:
            return (r.choice(REL), self.num(max(0, d - 1)), self.num(0) if r.random() < 0.5 else ('n', self.q(-4, 4)))
        k = r.choice(['and', 'or', 'not', 'iff', 'implies', 'forall', 'exists', 'alldiff', 'lcount', 'rel'])
        if k == 'rel':
            return (r.choice(REL), self.num(d - 1), self.num(d - 1))
        if k in ('and', 'or', 'iff'):
            return (k, self.logical(d - 1), self.logical(d - 1))
        if k == 'not':
            return ('not', self.logical(d - 1))
        if k == 'implies':
            return ('implies', self.logical(d - 1), self.logical(d - 1), self.logical(d - 1) if r.random() < 0.5 else ('T',))
        if k in ('forall', 'exists'):
            return (k, [self.logical(d - 1) for _ in range(r.randint(3, 4))])
        if k == 'alldiff':
            return (r.choice(['alldiff', '!alldiff']), [self.num(0) for _ in range(r.randint(2, 4))])
        return (r.choice(LCOUNT), ('n', Fr(r.randint(0, 3))), ('count', [self.logical(d - 1) for _ in range(r.randint(1, 3))]))


def make_feasible_at(m, rng, prob=0.75):
    """Move constraint bounds / negate logical constraints so that (with probability prob each) they hold at one random point of the
    variable domain; returns that point or None.  Keeps all data on the dyadic grid."""
    p = []
    for v in m.vars:
        lo, hi = Fr(v['lb']), Fr(v['ub'])
        if v['type'] == 'c':
            p.append(lo + Fr(rng.randint(0, int((hi - lo) * 4)), 4) if hi > lo else lo)
        else:
            p.append(Fr(rng.randint(int(lo), int(hi))))
    try:
        ev = m.evaluate(p)
    except ZeroDivisionError:
        return None
    for i, (c, b) in enumerate(zip(m.cons, ev['bodies'])):
        if i in m.compl or rng.random() > prob or (c['lb'] <= b <= c['ub']):
            continue
        if c['lb'] == c['ub']:
            c['lb'] = c['ub'] = b
        else:
            w = (c['ub'] - c['lb']) if (c['lb'] != -math.inf and c['ub'] != math.inf) else None
            if c['lb'] != -math.inf and b < c['lb']:
                c['lb'] = b - Fr(rng.randint(0, 4), 4)
                if w is not None:
                    c['ub'] = max(c['ub'], c['lb'] + w) if rng.random() < 0.5 else c['lb'] + w
            elif c['ub'] != math.inf and b > c['ub']:
                c['ub'] = b + Fr(rng.randint(0, 4), 4)
                if w is not None:
                    c['lb'] = c['ub'] - w
    dv = ev['dv']
    for i, e in enumerate(m.lcons):
        if rng.random() <= prob and not m.lg(e, p, dv):
            m.lcons[i] = ('not', e)
    return p


def grid_points(m, rng, cap=2048):
    """Test points of the original-variable domain: all integer points x the quarter-grid of continuous domains (capped, sampled if larger)."""
    axes = []
    for v in m.vars:
        lo, hi = Fr(v['lb']), Fr(v['ub'])
        if v['type'] == 'c':
            n = int((hi - lo) * 4); pts = [lo + Fr(k, 4) for k in range(n + 1)]
            if pts[-1] != hi:
                pts.append(hi)
            if len(pts) > 9:
                keep = {pts[0], pts[-1]}; keep.update(rng.sample(pts, 7)); pts = sorted(keep)
        else:
            pts = [Fr(k) for k in range(int(lo), int(hi) + 1)]
        axes.append(pts)
    total = 1
    for a in axes:
        total *= len(a)
    if total <= cap:
        return [list(p) for p in itertools.product(*axes)]
    out = set()
    corners = list(itertools.islice(itertools.product(*[(a[0], a[-1]) for a in axes]), 64))
    out.update(corners)
    while len(out) < cap:
        out.add(tuple(rng.choice(a) for a in axes))
    return [list(p) for p in out]


def expr_ops(e, acc):
    if isinstance(e, tuple):
        acc.add(e[0])
        for a in e[1:]:
            if isinstance(a, tuple):
                expr_ops(a, acc)
            elif isinstance(a, list):
                for b in a:
                    if isinstance(b, tuple):
                        expr_ops(b, acc)
    return acc


def model_ops(m):
    acc = set()
    for c in m.cons:
        if c['expr'] is not None:
            expr_ops(c['expr'], acc)
    for e in m.lcons:
        expr_ops(e, acc)
    for o in m.objs:
        if o['expr'] is not None:
            expr_ops(o['expr'], acc)
    for d in m.dvars:
        expr_ops(d['expr'], acc)
    return acc
