"""C08: the matrix (easy) model API writes the given LP/QP and un-permutes solutions."""
import os
from . import build, run

RULE = ("seeded random matrix models (1-8 columns of continuous/binary/general-integer type with all bound kinds, 0-5 sparse rows with ranges, "
        "objective sense/offset/optional coefficient vector, Hessians in both declared formats with diagonal-only, off-diagonal-only, "
        "triangle, symmetric, duplicate and column-only entries, sparse primal/dual warm starts, int/real suffixes of 4 kinds, optional names; "
        "all data dyadic so that arithmetic is exact) -> NLModel::WriteNL / NLSolver::LoadModel (text or binary) -> mp::Problem and the recording "
        "handler -> oracle in the caller's variable order through the reported permutation; then a .sol with distinct values per NL position -> "
        "NLSolver::ReadSolution or NLSolver::Solve with a stand-in solver script; non-trivial = model with >=2 columns and (>=1 row or a Hessian); "
        "distinct = distinct (n, m, Hessian shape, format, text, names, #suffixes) signatures")


def builds():
    return dict(asan=build.build('asan', 'easyapi_rt', ['easyapi_rt.cc'], nlw2=True))


def prebuild():
    builds()


def main(tier, seed):
    ctx = run.Ctx('C08', tier, seed)
    exe = builds()['asan']
    wd = ctx.workdir()
    fake = os.path.join(build.HARN, 'fake_solver.sh')
    shapes = {}

    def on_line(j):
        ctx.count('%d|%d|%s|%d|%d|%d|%d' % (j['n'], j['m'], j['qshape'], j['qfmt'], j['text'], j['names'], j['nsuf']),
                  nontrivial=j['n'] >= 2 and (j['m'] >= 1 or j['qshape'] != 'none'))
        shapes[j['qshape']] = shapes.get(j['qshape'], 0) + 1
        ctx.bump('notifications_checked', j['events'])
        if j['qshape'] != 'none' and j['m'] >= 2 and j['nsuf']:
            ctx.sample(dict(case=j['case'], columns=j['n'], rows=j['m'], hessian=j['qshape'], hessian_format=j['qfmt'], text=j['text'], names=j['names'], suffixes=j['nsuf']), cap=4)
        for b in j['bad']:
            ctx.violation(b, '%s (case %d: n=%d m=%d hessian=%s fmt=%d; %s)' % (b, j['case'], j['n'], j['m'], j['qshape'], j['qfmt'], j['detail']),
                          dict(case=j['case'], detail=j['detail'], cmd=[exe, '--dir', wd, '--fake-solver', fake, '--seed', str(seed), '--from', str(j['case']), '--to', str(j['case'] + 1)]))

    def on_death(case, d, cmd):
        kind, top, exc = d
        if kind == 'harness-failure':
            ctx.inconcl('harness failure: ' + exc[-300:]); return
        if kind == 'oom':
            ctx.bump('allocation_limit_aborts'); return True
        ctx.violation('%s:%s' % (kind, top), 'easy API died on case %d: %s in %s' % (case, kind, top), dict(cmd=cmd, report=exc))

    run.run_sharded(exe, ['--dir', wd, '--fake-solver', fake], ctx.n(40000, 1500000), on_line, on_death, seed, timeout_per_case=10)
    ctx.extras.update(hessian_shapes=shapes, sanitizers='ASan + UBSan(bounds,...) + _GLIBCXX_ASSERTIONS')
    ctx.assumptions += ['quadratic part = 0.5*sum of the given entries q_ij*x_i*x_j (documented "0.5 x\'Qx"); for the Triangular format the symmetric reading is accepted as well',
                        'all generated numbers are small dyadic rationals, so equality of objective/row values is exact']
    return ctx.finish(RULE, floor=50)


def replay(path):
    builds()
    return run.generic_replay(path)
