"""C03: NL writer output is read back as the same model; text = binary."""
from . import build, run

RULE = ("seeded random model descriptions (all variable/bound kinds, ranges, complementarity, linear parts, expression trees over every opcode, "
        "defined variables fed at position 0 / before a constraint / before an objective, functions, string args, initial primal/dual values, "
        "int/real suffixes of 4 kinds, names; adversarial doubles) fed through an NLFeeder to mp::WriteNLFile in all 24 encodings {text,binary} x "
        "{comments} x {bounds first/last} x {column sizes none/cumulative/plain}, each read back by mp::ReadNLFile into the recording checker; "
        "oracle = canonical-line multiset equality with bit-exact numbers (sign of zero ignored) + equality across encodings; non-trivial = "
        "model with >=1 variable and >=20 notifications; distinct = distinct (sizes, operator-set hash) signatures")


def builds():
    return dict(asan=build.build('asan', 'nlw2_rt', ['nlw2_rt.cc'], nlw2=True))


def prebuild():
    builds()


def main(tier, seed):
    ctx = run.Ctx('C03', tier, seed)
    exe = builds()['asan']
    wd = ctx.workdir()
    ops = set()

    def on_line(j):
        ctx.count('%d|%d|%d|%d|%d|%d|%s' % (j['nvars'], j['ncons'], j['nobjs'], j['nlogical'], j['ncommon'], j['nsuf'], hash(j['ops']) % 9973),
                  nontrivial=j['encodings'] > 0 and j['events'] >= 20)
        ops.update(o for o in j['ops'].split(',') if o)
        ctx.bump('encodings_written_and_read', j['encodings'])
        ctx.bump('notifications_checked', j['events'])
        if j['encodings'] >= 16 and j['ncommon'] and j['nsuf']:
            ctx.sample(dict(case=j['case'], vars=j['nvars'], cons=j['ncons'], objs=j['nobjs'], logical=j['nlogical'], defined_vars=j['ncommon'],
                            suffixes=j['nsuf'], functions=j['nfuncs'], encodings=j['encodings'], notifications=j['events']), cap=4)
        for b in j['bad']:
            ctx.violation(b, '%s (case %d; %s)' % (b, j['case'], j['detail']),
                          dict(case=j['case'], detail=j['detail'], cmd=[exe, '--dir', wd, '--seed', str(seed), '--from', str(j['case']), '--to', str(j['case'] + 1)]))

    def on_death(case, d, cmd):
        kind, top, exc = d
        if kind == 'harness-failure':
            ctx.inconcl('harness failure: ' + exc[-300:]); return
        if kind == 'oom':
            ctx.bump('allocation_limit_aborts'); return True
        ctx.violation('%s:%s' % (kind, top), 'NL write/read died on case %d: %s in %s' % (case, kind, top), dict(cmd=cmd, report=exc))

    run.run_sharded(exe, ['--dir', wd], ctx.n(15000, 600000), on_line, on_death, seed, timeout_per_case=10)
    ctx.extras.update(operators_seen=sorted(ops), n_operators_seen=len(ops), sanitizers='ASan + UBSan(bounds,...) + _GLIBCXX_ASSERTIONS on writer and reader')
    ctx.assumptions += ['bounds of magnitude >= DBL_MAX are the writer\'s documented infinity and are normalised to +-inf before feeding',
                        'operator identity is compared by name between nl-opcodes.h (writer) and expr::Kind (reader)']
    return ctx.finish(RULE, floor=100)


def replay(path):
    builds()
    return run.generic_replay(path)
