"""C02: the NL reader is total, memory-safe and reports only header-consistent data."""
import os, shutil
from . import build, run, fuzz

RULE = ("seeded structure-aware generator of valid NL models (all operators, functions, string args, suffixes, defined variables, "
        "complementarity, K/k segments, shuffled segment order) encoded by our own text / binary-native / binary-byte-swapped encoders, "
        "padded to page-multiple file sizes -1/0/+1, x 0-3 hostile mutations (truncation, header fields, counts/indices/opcodes replaced "
        "by boundary and huge values, NULs, duplicated/deleted/truncated segments); each input is read 6 times: ReadNLString and ReadNLFile x "
        "{flags 0, READ_BOUNDS_FIRST} into the recording checker, NullNLHandler, and the mp::Problem builder; ASan + full UBSan; then a coverage-guided libFuzzer stage (clang, ASan+UBSan, same checker, memory path) seeded with 800 generated inputs. "
        "non-trivial = the reader delivered >=5 notifications after the header; distinct = distinct (format, mutation, outcome pair, "
        "operator-set hash) signatures")


def builds():
    return dict(full=build.build('asanfull', 'nlread_mon', ['nlread_mon.cc']))


def fuzz_build():
    return build.build('fuzz', 'fuzz_nl', ['fuzz_nl.cc'], link_flags=['-fsanitize=fuzzer'])


def prebuild():
    builds(); fuzz_build()


def main(tier, seed):
    ctx = run.Ctx('C02', tier, seed)
    exe = builds()['full']
    wd = ctx.workdir()
    outc, hows, ops, fmts = {}, {}, set(), {}

    def on_line(j):
        ctx.count('%d|%s|%d|%d|%s' % (j['fmt'], j['how'], j['out0'], j['out1'], hash(j['ops']) % 997), nontrivial=j['events'] >= 6)
        outc[str(j['out0'])] = outc.get(str(j['out0']), 0) + 1
        fmts[str(j['fmt'])] = fmts.get(str(j['fmt']), 0) + 1
        for h in j['how'].split('+'):
            hows[h] = hows.get(h, 0) + 1
        ops.update(o for o in j['ops'].split(',') if o)
        ctx.bump('notifications_checked', j['events'])
        ctx.bump('expression_nodes', j['nodes'])
        if j['valid_state']:
            ctx.bump('valid_models_' + ('matched' if j['valid_state'] == 1 and not j['bad'] else 'other'))
        if j['prob'] >= 0:
            ctx.bump('problem_builder_runs')
        if j['pad'] != 9:
            ctx.bump('page_boundary_files')
        if j['out0'] in (1, 2) and j['how'] != 'valid':
            ctx.sample(dict(case=j['case'], format=['text', 'text', 'binary', 'binary-swapped'][j['fmt']], mutation=j['how'], error=j['err'], notifications=j['events']), cap=4)
        for b in j['bad']:
            ctx.violation(b, '%s (case %d, fmt %d, mutation %s; %s)' % (b, j['case'], j['fmt'], j['how'], j['detail']),
                          dict(case=j['case'], how=j['how'], detail=j['detail'], nl_hex=j.get('hex'),
                               cmd=[exe, '--dir', wd, '--seed', str(seed), '--from', str(j['case']), '--to', str(j['case'] + 1)]))

    def on_death(case, d, cmd):
        kind, top, exc = d
        if kind == 'harness-failure':
            ctx.inconcl('harness failure: ' + exc[-300:]); return
        if kind == 'oom':
            ctx.bump('allocation_limit_aborts'); return True
        ctx.violation('%s:%s' % (kind, top), 'NL reader died on case %d: %s in %s' % (case, kind, top), dict(cmd=cmd, report=exc))

    run.run_sharded(exe, ['--dir', wd], ctx.n(150000, 6000000), on_line, on_death, seed, timeout_per_case=10)
    # ---- coverage-guided tier (clang libFuzzer + ASan/UBSan) on the memory path with the same recording checker
    fexe = fuzz_build()
    corpus = os.path.join(wd, 'corpus0')
    shutil.rmtree(corpus, ignore_errors=True); os.makedirs(corpus)
    run.run_sharded(exe, ['--dir', wd, '--dump-dir', corpus], 800, lambda j: None, lambda *a: None, seed + 77, timeout_per_case=10, shards=4)
    fuzz.run_fuzzers(ctx, fexe, corpus, ctx.n(1500000, 150000000), seed, wd, max_len=8000, what='mp::ReadNLString')
    shutil.rmtree(corpus, ignore_errors=True)
    ctx.extras.update(outcomes_string_path={'completed': outc.get('0', 0), 'ReadError': outc.get('1', 0), 'BinaryReadError': outc.get('2', 0),
                                            'other': sum(v for k, v in outc.items() if k not in '012')},
                      formats=fmts, mutation_kinds=hows, operators_seen=sorted(ops), n_operators_seen=len(ops),
                      sanitizers='ASan + UBSan(undefined, float-cast-overflow) + _GLIBCXX_ASSERTIONS')
    ctx.assumptions += ['allocator-limit aborts for header-declared gigantic problems are resource exhaustion (counted)',
                        'the mp::Problem builder is only driven when every header count is <= 20000']
    return ctx.finish(RULE, floor=200)


def replay(path):
    builds()
    return run.generic_replay(path)
