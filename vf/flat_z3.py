"""Encode a delivered model (mpmon trace) into z3 and decide, for a fixed point of the original variables, whether auxiliary values exist
that satisfy every delivered constraint (functional constraints read as equalities, the way a solver accepting them natively does), and
what the best delivered objective value is.  Every `sat` answer can be re-validated with flat_eval's own evaluator."""
from fractions import Fraction as Fr
import math
import z3
from . import flat_eval

HALF = z3.Q(1, 2)


class Unsupported(Exception):
    pass


def q(v):
    v = flat_eval.fr(v)
    if isinstance(v, float):
        raise Unsupported('non-finite constant')
    return z3.Q(v.numerator, v.denominator)


def fin(v):
    v = flat_eval.num(v)
    return not (isinstance(v, float) and (math.isinf(v) or abs(v) >= 1e300))


class Enc:
    def __init__(self, tr, timeout_ms=4000, compl_bounds=None):
        self.tr = tr
        self.compl_bounds = compl_bounds or {}     # var -> (lb, ub) to read a complementarity condition with (default: the delivered bounds)
        self.s = z3.Solver()
        self.s.set('timeout', timeout_ms)
        self.raw, self.v = [], []
        for j in range(tr.nvars):
            if tr.type[j] == 1:
                iv = z3.Int('i%d' % j); self.raw.append(iv); self.v.append(z3.ToReal(iv))
            else:
                rv = z3.Real('r%d' % j); self.raw.append(rv); self.v.append(rv)
            if fin(tr.lb[j]):
                self.s.add(self.v[j] >= q(tr.lb[j]) - self.round_slack(tr.lb[j]))
            if fin(tr.ub[j]):
                self.s.add(self.v[j] <= q(tr.ub[j]) + self.round_slack(tr.ub[j]))
        for c in tr.cons:
            self.s.add(self.con(c))
        self.objs = [self.obj(o) for o in tr.objs]

    @staticmethod
    def round_slack(b):
        """an inferred bound that is not a short dyadic number was rounded when it was computed in double arithmetic: allow 1e-9 relative"""
        f = flat_eval.fr(b)
        if f.denominator > 2 ** 20 or abs(f.numerator).bit_length() > 44:
            t = Fr(1, 10 ** 9) * max(1, abs(f))
            return z3.Q(t.numerator, t.denominator)
        return 0

    # ---- pieces
    def lin(self, lt):
        return z3.Sum([q(c) * self.v[j] for c, j in zip(lt['c'], lt['v'])]) if lt['c'] else z3.RealVal(0)

    def quad(self, qt):
        return z3.Sum([q(c) * self.v[a] * self.v[b] for c, a, b in zip(qt['c'], qt['v1'], qt['v2'])]) if qt and qt['c'] else z3.RealVal(0)

    def body(self, b):
        if 'lin' in b:
            e = self.lin(b['lin']) + self.quad(b.get('quad'))
            if 'const' in b:
                e = e + q(b['const'])
            return e
        return self.lin(b)

    def obj(self, o):
        return self.lin(o['lin']) + self.quad(o.get('quad'))

    def alg(self, d, slack=False):
        """slack: static rows are satisfied within 1e-9 (relative to the right-hand side), as any solver would accept: big-M rows built from
        the non-dyadic comparison epsilon 1e-4 hold only up to double rounding"""
        e = self.body(d['body'])
        kind = d.get('kind', -100)
        if slack:       # only rows carrying a non-dyadic constant (the comparison epsilon): rows with dyadic data are exact in double arithmetic
            b = d['body']
            nums = list((b.get('lin') or b)['c']) + list((b.get('quad') or {}).get('c', [])) + [t for t in (d['lb'], d['ub']) if fin(t)]
            slack = any(flat_eval.fr(t).denominator > 2 ** 20 for t in nums)
        if kind == -2:
            return e < q(d['ub'])
        if kind == 2:
            return e > q(d['lb'])
        parts = []
        def tau(b):
            t = Fr(1, 10 ** 9) * max(1, abs(flat_eval.fr(b)))
            return z3.Q(t.numerator, t.denominator) if slack else 0
        if fin(d['lb']):
            parts.append(e >= q(d['lb']) - tau(d['lb']))
        if fin(d['ub']):
            parts.append(e <= q(d['ub']) + tau(d['ub']))
        return z3.And(parts) if parts else z3.BoolVal(True)

    def truth(self, j):
        return self.v[j] >= HALF

    def b01(self, cond):
        return z3.If(cond, z3.RealVal(1), z3.RealVal(0))

    def pl(self, prm, a):
        xs = [q(t) for t in prm['x']]; ys = [q(t) for t in prm['y']]
        if len(xs) == 1:
            return ys[0]
        def seg(i):
            return ys[i] + (ys[i + 1] - ys[i]) * (a - xs[i]) / (xs[i + 1] - xs[i])
        e = seg(len(xs) - 2)
        for i in range(len(xs) - 3, -1, -1):
            e = z3.If(a <= xs[i + 1], seg(i), e)
        return e

    def con(self, c):
        t, d = c['type'], c['data']
        v = self.v
        if t.startswith('LinCon') or t.startswith('QuadCon'):
            return self.alg(d, slack=True)
        if t.startswith('IndicatorConstraint'):
            return z3.Implies(v[d['b']] == z3.RealVal(d['bv']), self.alg(d['con'], slack=True))
        if t in ('SOS1Constraint', 'SOS2Constraint'):
            order = sorted(range(len(d['vars'])), key=lambda k: d['weights'][k])
            vs = [v[d['vars'][k]] for k in order]
            out = []
            for i in range(len(vs)):
                for j in range(i + 1, len(vs)):
                    if t == 'SOS1Constraint' or j - i > 1:
                        out.append(z3.Or(vs[i] == 0, vs[j] == 0))
            return z3.And(out) if out else z3.BoolVal(True)
        if t.startswith('Complementarity'):
            e = self.body(d['expr']); x = v[d['var']]; j = d['var']
            lo, hi = self.compl_bounds.get(j, (self.tr.lb[j], self.tr.ub[j]))
            alts = [e == 0]
            if fin(lo):
                alts.append(z3.And(x == q(lo), e >= 0))
            if fin(hi):
                alts.append(z3.And(x == q(hi), e <= 0))
            return z3.Or(alts)
        if t in ('QuadraticConeConstraint', 'RotatedQuadraticConeConstraint'):
            # p0*x0 >= sqrt(sum (pi*xi)^2), resp. 2*p0*x0*p1*x1 >= sum_{i>=2} (pi*xi)^2 with p0*x0, p1*x1 >= 0 (the solvers' reading)
            sc = [q(pp) * v[i] for pp, i in zip(d['params'], d['args'])]
            nh = 1 if t[0] == 'Q' else 2
            lhs = sc[0] * sc[0] if nh == 1 else 2 * sc[0] * sc[1]
            rhs = z3.Sum([x * x for x in sc[nh:]]) if len(sc) > nh else z3.RealVal(0)
            if any(flat_eval.fr(pp).denominator > 2 ** 20 for pp in d['params']):      # factors are rounded square roots: 1e-9 relative
                lhs = lhs * z3.Q(10 ** 9 + 1, 10 ** 9) + z3.Q(1, 10 ** 12)
            return z3.And([x >= 0 for x in sc[:nh]] + [lhs >= rhs])
        if 'res' not in d or d['res'] < 0:
            raise Unsupported(t)
        r = v[d['res']]
        if t in ('LinearFunctionalConstraint', 'QuadraticFunctionalConstraint'):
            return r == self.body(d['args'])
        if t.startswith('CondLinCon') or t.startswith('CondQuadCon'):
            return r == self.b01(self.alg(d['con']))
        a = [v[i] for i in d['args']] if isinstance(d.get('args'), list) else None
        prm = d.get('params')
        if t == 'MaxConstraint':
            return z3.And([r >= x for x in a] + [z3.Or([r == x for x in a])])
        if t == 'MinConstraint':
            return z3.And([r <= x for x in a] + [z3.Or([r == x for x in a])])
        if t == 'AbsConstraint':
            return r == z3.If(a[0] >= 0, a[0], -a[0])
        if t == 'AndConstraint':
            return r == self.b01(z3.And([x >= HALF for x in a]))
        if t == 'OrConstraint':
            return r == self.b01(z3.Or([x >= HALF for x in a]))
        if t == 'NotConstraint':
            return r == self.b01(a[0] < HALF)
        if t == 'DivConstraint':
            return z3.And(a[1] != 0, r * a[1] == a[0])
        if t == 'IfThenConstraint':
            return r == z3.If(a[0] >= HALF, a[1], a[2])
        if t == 'ImplicationConstraint':
            return r == self.b01(z3.If(a[0] >= HALF, a[1] >= HALF, a[2] >= HALF))
        if t == 'AllDiffConstraint':
            return r == self.b01(z3.Distinct(a) if len(a) > 1 else z3.BoolVal(True))
        if t == 'NumberofConstConstraint':
            return r == z3.Sum([self.b01(x == q(prm[0])) for x in a])
        if t == 'NumberofVarConstraint':
            return r == (z3.Sum([self.b01(x == a[0]) for x in a[1:]]) if len(a) > 1 else z3.RealVal(0))
        if t == 'CountConstraint':
            return r == z3.Sum([self.b01(x >= HALF) for x in a])
        if t == 'PLConstraint':
            return r == self.pl(prm, a[0])
        if t == 'PowConstraint':
            p = flat_eval.fr(prm[0])
            if isinstance(p, Fr) and p.denominator == 1 and 0 <= p <= 6:
                e = z3.RealVal(1)
                for _ in range(int(p)):
                    e = e * a[0]
                return r == e
            raise Unsupported('PowConstraint exponent %s' % prm[0])
        raise Unsupported(t)

    # ---- queries at a point of the original variables
    def at(self, p):
        self.s.push()
        for j, val in enumerate(p):
            self.s.add(self.v[j] == z3.Q(val.numerator, val.denominator))

    def done(self):
        self.s.pop()

    def check(self, *extra):
        r = self.s.check(*extra)
        return 'sat' if r == z3.sat else 'unsat' if r == z3.unsat else 'unknown'

    def witness(self):
        m = self.s.model()
        out = []
        for j in range(self.tr.nvars):
            val = m.eval(self.raw[j], model_completion=True)
            if z3.is_int_value(val):
                out.append(Fr(val.as_long()))
            elif z3.is_rational_value(val):
                out.append(Fr(val.numerator_as_long(), val.denominator_as_long()))
            else:
                out.append(None)       # algebraic number: not re-validated
        return out


def validate(tr, x):
    """Re-check a z3 witness with flat_eval's own semantics.  Returns list of problems (empty = confirmed), or None if not decidable here."""
    if any(v is None for v in x):
        return None
    bad = []
    for j in range(tr.nvars):
        def sl(b):
            f = flat_eval.fr(b)
            return Fr(1, 10 ** 9) * max(1, abs(f)) if (f.denominator > 2 ** 20 or abs(f.numerator).bit_length() > 44) else 0
        if (fin(tr.lb[j]) and x[j] < flat_eval.fr(tr.lb[j]) - sl(tr.lb[j])) or (fin(tr.ub[j]) and x[j] > flat_eval.fr(tr.ub[j]) + sl(tr.ub[j])) or (tr.type[j] == 1 and x[j].denominator != 1):
            bad.append('var %d' % j)
    for c in tr.cons:
        d = c['data']
        if isinstance(d, dict) and 'res' in d and d['res'] >= 0:
            try:
                val = flat_eval.func_value(c, x)
            except (ArithmeticError, KeyError):
                return None
            if val is None or isinstance(val, float):
                return None
            if val != x[d['res']]:
                bad.append('%s res %d' % (c['type'], d['res']))
        else:
            dd = d.get('con') or d
            bb = dd.get('body') or {}
            nn = list((bb.get('lin') or bb).get('c', [])) + list((bb.get('quad') or {}).get('c', [])) + [t for t in (dd.get('lb'), dd.get('ub')) if t is not None and fin(t)]
            ok = flat_eval.static_holds(c, x, tol=0 if not any(flat_eval.fr(t).denominator > 2 ** 20 for t in nn) else Fr(1, 10 ** 9) * max([1] + [abs(flat_eval.fr(b)) for b in ((d.get('con') or d).get('lb'), (d.get('con') or d).get('ub')) if b is not None and fin(b)]))
            if ok is None:
                if c['type'].startswith('Complementarity'):
                    continue
                return None
            if not ok:
                bad.append(c['type'])
    return bad
