"""Convert a text NL file (as produced by gen_nl / nltext) into the equivalent binary NL file (native little-endian IEEE).

The conversion is purely syntactic: segment headers are recognised by their (upper-case or d/x/r/b/k) letter, expression lines by theirs
(o n v f h s l); a bare number after an 'o' or 'f' line is an argument count.  Returns None when the text is not of the shape it knows
(the caller then keeps the text form), so deliberately malformed inputs are never "repaired" by it."""
import struct, zlib


def i32(v):
    return struct.pack('<i', int(v))


def f64(v):
    return struct.pack('<d', float(v))


def _num_const(tok, variety):
    """'n' double, or for small integers the short/long forms the format also allows"""
    v = float(tok)
    if variety and v == int(v) and abs(v) < 2 ** 15 and not (v == 0 and str(tok).startswith('-')):
        if variety % 3 == 1:
            return b's' + struct.pack('<h', int(v))
        if variety % 3 == 2:
            return b'l' + struct.pack('<i', int(v))      # sizeof(double) == 2*sizeof(int): the reader takes an int here
    return b'n' + f64(v)


def text_to_binary(text, variety=0):
    try:
        return _convert(text, variety)
    except (ValueError, IndexError, KeyError, struct.error, OverflowError):
        return None


def _convert(text, variety):
    lines = text.split('\n')
    if lines and lines[-1] == '':
        lines.pop()
    if len(lines) < 10 or not lines[0].startswith('g'):
        return None
    hdr = lines[:10]
    dims = hdr[1].split()
    nv, nc = int(dims[0]), int(dims[1])
    l5 = hdr[5].split()
    if len(l5) < 3:
        return None
    l5[2] = '1'                               # arith kind: IEEE little endian
    hdr[5] = ' ' + ' '.join(l5)
    hdr[0] = 'b' + hdr[0][1:]
    out = [('\n'.join(hdr) + '\n').encode('latin-1')]
    i = 10
    n = len(lines)

    def pairs(cnt, conv):
        nonlocal i
        for _ in range(cnt):
            a, b = lines[i].split(); i += 1
            out.append(i32(a) + conv(b))

    def exprs():
        """expression lines up to the next segment header"""
        nonlocal i
        k = 0
        while i < n:
            l = lines[i]
            c = l[:1]
            if c == 'o':
                out.append(b'o' + i32(l[1:].split()[0]))
            elif c == 'n':
                k += 1
                out.append(_num_const(l[1:].split()[0], (variety + k) if variety else 0))
            elif c == 'v':
                out.append(b'v' + i32(l[1:].split()[0]))
            elif c == 'f':
                a, b = l[1:].split()[:2]
                out.append(b'f' + i32(a) + i32(b))
            elif c == 'h':
                ln, s = l[1:].split(':', 1)
                if len(s) != int(ln):
                    raise ValueError('multi-line string')
                out.append(b'h' + i32(ln) + s.encode('latin-1'))
            elif c.isdigit():
                out.append(i32(l.split()[0]))
            else:
                return
            i += 1

    while i < n:
        l = lines[i]; i += 1
        c, rest = l[:1], l[1:].split('#')[0].split()
        if c in 'CL':
            out.append(c.encode() + i32(rest[0])); exprs()
        elif c == 'O':
            out.append(b'O' + i32(rest[0]) + i32(rest[1])); exprs()
        elif c == 'V':
            out.append(b'V' + i32(rest[0]) + i32(rest[1]) + i32(rest[2])); pairs(int(rest[1]), f64); exprs()
        elif c == 'S':
            kind, cnt, name = int(rest[0]), int(rest[1]), rest[2]
            out.append(b'S' + i32(kind) + i32(cnt) + i32(len(name)) + name.encode('latin-1'))
            pairs(cnt, f64 if kind & 4 else i32)
        elif c in 'dx':
            out.append(c.encode() + i32(rest[0])); pairs(int(rest[0]), f64)
        elif c in 'rb':
            out.append(c.encode())
            for _ in range(nc if c == 'r' else nv):
                t = lines[i].split(); i += 1
                if t[0] == '5':
                    out.append(b'5' + i32(t[1]) + i32(t[2]))
                else:
                    need = {'0': 2, '1': 1, '2': 1, '3': 0, '4': 1}[t[0]]
                    if len(t) != need + 1:
                        raise ValueError('bound line')
                    out.append(t[0].encode() + b''.join(f64(x) for x in t[1:]))
        elif c == 'k':
            out.append(b'k' + i32(rest[0]))
            for _ in range(int(rest[0])):
                out.append(i32(lines[i].split()[0])); i += 1
        elif c in 'JG':
            out.append(c.encode() + i32(rest[0]) + i32(rest[1])); pairs(int(rest[1]), f64)
        else:
            return None
    return b''.join(out)


def pick(stub, text):
    """deterministic choice of the input format for one driver run: about 1 in 4 runs gets the binary form (0 = text, else a variety code)"""
    h = zlib.crc32((stub + '\0' + text[:4096]).encode('utf-8', 'replace'))
    return 0 if h % 4 else 1 + (h >> 8) % 6
