"""Independent semantics of the flat constraints recorded in an mpmon trace: forward evaluation of the functional DAG
(exact Fractions in the algebraic fragment, floats for transcendental types) and satisfaction tests for static constraints."""
from fractions import Fraction as Fr
import math

INF = float('inf')


def num(v):
    if v == 'inf':
        return INF
    if v == '-inf':
        return -INF
    if v == 'nan':
        return float('nan')
    return v


def fr(v):
    v = num(v)
    if isinstance(v, float) and (math.isinf(v) or math.isnan(v)):
        return v
    return Fr(v)


class Trace:
    """Parsed mpmon trace: variables, objectives, constraints (in delivery order)."""
    def __init__(self, events):
        self.lb, self.ub, self.type, self.names = [], [], [], []
        self.objs, self.cons = [], []
        self.init = None
        self.finished = False
        self.other = []
        for e in events:
            ev = e.get('ev')
            if ev == 'vars':
                self.lb += [num(x) for x in e['lb']]; self.ub += [num(x) for x in e['ub']]; self.type += e['type']
                self.names += (e['names'] if e['names'] is not None else [None] * len(e['lb']))
            elif ev == 'obj':
                self.objs.append(e)
            elif ev == 'con':
                self.cons.append(e)
            elif ev == 'init':
                self.init = e
            elif ev == 'finish':
                self.finished = True
            else:
                self.other.append(e)
        self.nvars = len(self.lb)

    def functional(self):
        return [c for c in self.cons if isinstance(c['data'], dict) and 'res' in c['data'] and c['data']['res'] >= 0]

    def static(self):
        return [c for c in self.cons if not (isinstance(c['data'], dict) and 'res' in c['data'] and c['data']['res'] >= 0)]


def lin_val(lt, x):
    s = Fr(0)
    for c, v in zip(lt['c'], lt['v']):
        xv = x[v]
        if xv is None:
            return None
        s += fr(c) * xv
    return s


def quad_val(qt, x):
    s = Fr(0)
    for c, a, b in zip(qt['c'], qt['v1'], qt['v2']):
        if x[a] is None or x[b] is None:
            return None
        s += fr(c) * x[a] * x[b]
    return s


def body_val(body, x):
    """Value of an algebraic body: LinTerms {c,v} or QuadAndLinTerms {lin,quad} (+const for expressions)."""
    if 'lin' in body:
        a = lin_val(body['lin'], x)
        q = quad_val(body['quad'], x) if body.get('quad') else Fr(0)
        if a is None or q is None:
            return None
        return a + q + (fr(body['const']) if 'const' in body else 0)
    return lin_val(body, x)


def cmp_kind(v, kind, rhs):
    return {-2: v < rhs, -1: v <= rhs, 0: v == rhs, 1: v >= rhs, 2: v > rhs}[kind]


def algcon_holds(con, x, tol=0):
    v = body_val(con['body'], x)
    if v is None:
        return None
    lb, ub = fr(con['lb']), fr(con['ub'])
    return v >= lb - tol and v <= ub + tol


def pl_points_eval(xs, ys, x):
    xs = [fr(a) for a in xs]; ys = [fr(a) for a in ys]
    if len(xs) == 1:
        return ys[0]
    if x <= xs[0]:
        i = 0
    elif x >= xs[-1]:
        i = len(xs) - 2
    else:
        i = max(k for k in range(len(xs) - 1) if xs[k] <= x)
    return ys[i] + (ys[i + 1] - ys[i]) * (x - xs[i]) / (xs[i + 1] - xs[i])


FLOAT_FUNCS = {'ExpConstraint': math.exp, 'LogConstraint': math.log, 'SinConstraint': math.sin, 'CosConstraint': math.cos, 'TanConstraint': math.tan,
               'AsinConstraint': math.asin, 'AcosConstraint': math.acos, 'AtanConstraint': math.atan, 'SinhConstraint': math.sinh, 'CoshConstraint': math.cosh,
               'TanhConstraint': math.tanh, 'AsinhConstraint': math.asinh, 'AcoshConstraint': math.acosh, 'AtanhConstraint': math.atanh}


def func_value(c, x):
    """Value of the result variable of functional constraint c at x (list with None for unknown); None if args unknown.
    Returns Fraction in the exact fragment, float for transcendental functions, raises ArithmeticError outside the domain."""
    t, d = c['type'], c['data']
    if t in ('LinearFunctionalConstraint', 'QuadraticFunctionalConstraint'):
        return body_val(d['args'], x)
    if t.startswith('CondLinCon') or t.startswith('CondQuadCon'):
        v = body_val(d['con']['body'], x)
        if v is None:
            return None
        kind = d['con']['kind']
        rhs = fr(d['con']['ub'] if kind <= 0 else d['con']['lb'])
        if kind == 0:
            rhs = fr(d['con']['lb'])
        if isinstance(v, float) and abs(v - float(rhs)) <= 1e-9 * max(1.0, abs(v)):
            return None         # a tie decided by rounding: not judged
        return Fr(1 if cmp_kind(v, kind, rhs) else 0)
    args = d.get('args')
    if isinstance(args, list):
        a = [x[i] for i in args]
        if any(v is None for v in a):
            return None
    else:
        a = None
    prm = d.get('params')
    if t == 'MaxConstraint':
        return max(a)
    if t == 'MinConstraint':
        return min(a)
    if t == 'AbsConstraint':
        return abs(a[0])
    if t == 'AndConstraint':
        return Fr(1 if all(v != 0 for v in a) else 0)
    if t == 'OrConstraint':
        return Fr(1 if any(v != 0 for v in a) else 0)
    if t == 'NotConstraint':
        return Fr(0 if a[0] != 0 else 1)
    if t == 'DivConstraint':
        if a[1] == 0:
            raise ArithmeticError('division by zero')
        return a[0] / a[1]
    if t == 'IfThenConstraint':
        return a[1] if a[0] != 0 else a[2]
    if t == 'ImplicationConstraint':
        return Fr(1 if (a[1] != 0 if a[0] != 0 else a[2] != 0) else 0)
    if t == 'AllDiffConstraint':
        return Fr(1 if len(set(a)) == len(a) else 0)
    if t == 'NumberofConstConstraint':
        return Fr(sum(1 for v in a if v == fr(prm[0])))
    if t == 'NumberofVarConstraint':
        return Fr(sum(1 for v in a[1:] if v == a[0]))
    if t == 'CountConstraint':
        return Fr(sum(1 for v in a if v != 0))
    if t == 'PLConstraint':
        return pl_points_eval(prm['x'], prm['y'], a[0])
    if t == 'PowConstraint':
        p = fr(prm[0])
        if isinstance(a[0], Fr) and p.denominator == 1 and (p >= 0 or a[0] != 0) and abs(p) <= 64 and (a[0].numerator.bit_length() + a[0].denominator.bit_length()) * abs(p) <= 4096:
            return a[0] ** int(p)
        if (a[0] < 0 and float(p) != int(float(p))) or (a[0] == 0 and p < 0):
            raise ArithmeticError('pow domain')
        try:
            return math.pow(float(a[0]), float(p))
        except (OverflowError, ValueError):
            raise ArithmeticError('pow range')
    if t == 'ExpAConstraint':
        try:
            return math.pow(float(prm[0]), float(a[0]))
        except (OverflowError, ValueError):
            raise ArithmeticError('expA range')
    if t == 'LogAConstraint':
        if a[0] <= 0:
            raise ArithmeticError('log domain')
        return math.log10(float(a[0])) if float(prm[0]) == 10.0 else math.log(float(a[0])) / math.log(float(prm[0]))
    if t in FLOAT_FUNCS:
        try:
            return FLOAT_FUNCS[t](float(a[0]))
        except (ValueError, OverflowError):
            raise ArithmeticError(t + ' domain')
    raise KeyError('no forward semantics for ' + t)


def forward(tr, xorig):
    """Propagate values of the original variables through all functional constraints.  Returns (x list with None where undetermined,
    list of domain errors)."""
    x = [None] * tr.nvars
    for j, v in enumerate(xorig):
        x[j] = v
    defined = set(c['data']['res'] for c in tr.functional())
    for j in range(len(xorig), tr.nvars):      # auxiliary variables fixed by their bounds and not defined by a functional constraint are constants
        if j not in defined and tr.lb[j] == tr.ub[j] and not math.isinf(tr.lb[j]):
            x[j] = Fr(tr.lb[j])
    pending = list(tr.functional())
    errs = []
    progress = True
    while pending and progress:
        progress = False
        rest = []
        for c in pending:
            r = c['data']['res']
            try:
                v = func_value(c, x)
            except ArithmeticError as e:
                errs.append((c['type'], str(e))); v = None; continue
            if v is None:
                rest.append(c); continue
            if x[r] is None:
                x[r] = v; progress = True
            elif r >= len(xorig):
                pass   # defined twice: first definition wins (consistency is C01's business)
        pending = rest
    return x, errs


def static_holds(c, x, tol=0):
    """True/False/None(undetermined) for a static (non-functional) constraint at full assignment x."""
    t, d = c['type'], c['data']
    if t.startswith('LinCon') or t.startswith('QuadCon'):
        return algcon_holds(d, x, tol)
    if t.startswith('IndicatorConstraint'):
        b = x[d['b']]
        if b is None:
            return None
        if (b != 0) != (d['bv'] != 0):
            return True
        return algcon_holds(d['con'], x, tol)
    if t in ('SOS1Constraint', 'SOS2Constraint'):
        vals = [x[v] for v in d['vars']]
        if any(v is None for v in vals):
            return None
        order = sorted(range(len(vals)), key=lambda k: d['weights'][k])
        nz = [k for k, i in enumerate(order) if vals[i] != 0]
        if t == 'SOS1Constraint':
            return len(nz) <= 1
        return len(nz) <= 1 or (len(nz) == 2 and nz[1] - nz[0] == 1)
    if t in ('QuadraticConeConstraint', 'RotatedQuadraticConeConstraint'):
        vals = [x[i] for i in d['args']]
        if any(v is None for v in vals):
            return None
        sc = [fr(p) * v for p, v in zip(d['params'], vals)]
        nh = 1 if t[0] == 'Q' else 2
        lhs = sc[0] * sc[0] if nh == 1 else 2 * sc[0] * sc[1]
        if any(fr(p).denominator > 2 ** 20 for p in d['params']):
            lhs = lhs * Fr(10 ** 9 + 1, 10 ** 9) + Fr(1, 10 ** 12)
        return all(v >= 0 for v in sc[:nh]) and lhs >= sum((v * v for v in sc[nh:]), Fr(0))
    if t.startswith('Complementarity'):
        e = body_val(d['expr'], x); v = x[d['var']]
        if e is None or v is None:
            return None
        return None   # judged by the caller with the variable's bounds
    return None


def obj_value(o, x):
    v = lin_val(o['lin'], x)
    if v is None:
        return None
    if o.get('quad'):
        q = quad_val(o['quad'], x)
        if q is None:
            return None
        v += q
    return v
