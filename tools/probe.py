"""debug helper: run a hand-made gen_nl model through mpmon and compare NL feasibility with z3 on given points"""
import os, json
from fractions import Fraction as Fr
from vf import gen_nl, mpmon, flat_eval, flat_z3
LIN = {'*': 0, 'LinConLE': 2, 'LinConEQ': 2, 'LinConGE': 2}
LINQ = dict(LIN, QuadConLE=2, QuadConEQ=2, QuadConGE=2)
I = lambda lo, hi: dict(lb=Fr(lo), ub=Fr(hi), type='i')
C = lambda lo, hi: dict(lb=Fr(lo), ub=Fr(hi), type='c')
B = lambda: dict(lb=Fr(0), ub=Fr(1), type='b')


def run(m, opts, acc, pts, show=False):
    wd = '/verif/.build/work/mp'; os.makedirs(wd, exist_ok=True)
    r = mpmon.run_case(mpmon.exe(), wd, 't', m.to_nl(), opts=opts + ['cvt:writegraph=' + wd + '/t.g'], acc=acc)
    tr = flat_eval.Trace(r['trace'])
    if not tr.finished:
        print('refused', (r['sol'] or b'')[:300]); return
    enc = flat_z3.Enc(tr)
    res = []
    for p in pts:
        enc.at(p); a = enc.check(); enc.done()
        res.append(([str(t) for t in p], a, m.evaluate(p)['feasible']))
    print(opts, sorted(set(c['type'] for c in tr.cons)))
    for x in res:
        print('   ', x, '' if (x[1] == 'sat') == x[2] else '  <<<<<< MISMATCH')
    if show:
        for c in tr.cons:
            print('     ', c['type'], json.dumps(c['data'])[:200])
        print('     ', list(zip(tr.lb, tr.ub, tr.type)))
