"""debug helper: unsat core of the delivered model at a point.  usage: python3-vt -m tools.c01_core <trace> v0 v1 ..."""
import sys, json
from fractions import Fraction as Fr
import z3
from vf import flat_eval, flat_z3

tr = flat_eval.Trace([json.loads(l) for l in open(sys.argv[1]) if l.strip()])
p = [Fr(a) for a in sys.argv[2:]]
enc = flat_z3.Enc.__new__(flat_z3.Enc)
enc.tr = tr; enc.s = z3.Solver(); enc.raw, enc.v = [], []
names = {}
for j in range(tr.nvars):
    if tr.type[j] == 1:
        iv = z3.Int('i%d' % j); enc.raw.append(iv); enc.v.append(z3.ToReal(iv))
    else:
        rv = z3.Real('r%d' % j); enc.raw.append(rv); enc.v.append(rv)
for j in range(tr.nvars):
    if flat_z3.fin(tr.lb[j]):
        t = z3.Bool('lb%d' % j); names[str(t)] = 'var %d >= %s' % (j, tr.lb[j]); enc.s.assert_and_track(enc.v[j] >= flat_z3.q(tr.lb[j]), t)
    if flat_z3.fin(tr.ub[j]):
        t = z3.Bool('ub%d' % j); names[str(t)] = 'var %d <= %s' % (j, tr.ub[j]); enc.s.assert_and_track(enc.v[j] <= flat_z3.q(tr.ub[j]), t)
for i, c in enumerate(tr.cons):
    t = z3.Bool('c%d' % i); names[str(t)] = '%s %s' % (c['type'], json.dumps(c['data'])[:200]); enc.s.assert_and_track(enc.con(c), t)
for j, val in enumerate(p):
    t = z3.Bool('x%d' % j); names[str(t)] = 'x%d = %s' % (j, val); enc.s.assert_and_track(enc.v[j] == z3.Q(val.numerator, val.denominator), t)
r = enc.s.check()
print(r)
if r == z3.unsat:
    core = enc.s.unsat_core()
    # minimise greedily
    core = list(core)
    for t in list(core):
        rest = [u for u in core if u is not t]
        if enc.s.check(*rest) == z3.unsat if False else False:
            core = rest
    for t in core:
        print('  ', names[str(t)])
