"""debug helper: show NL text (as printed by mp's graph export), then unsat core / witness at a point for a kept C01 case.
usage: python3-vt -m tools.c01_case <stub path without extension> <acc string for MON_ACC> -- opts... -- v0 v1 ..."""
import sys, json, os, subprocess
from fractions import Fraction as Fr
import z3
from vf import flat_eval, flat_z3
stub = sys.argv[1]; acc = sys.argv[2]
rest = sys.argv[3:]
i = rest.index('--'); rest = rest[i + 1:]
j = rest.index('--'); opts = rest[:j]; pt = [Fr(a) for a in rest[j + 1:]]
g = stub + '.graph.jsonl'
env = dict(os.environ, MON_TRACE=stub + '.dbg.trace', MON_ACC=acc)
subprocess.run(['/verif/.build/asan/bin/mpmon', stub, '-AMPL', 'cvt:writegraph=' + g] + opts, env=env, capture_output=True)
for l in open(g):
    r = json.loads(l)
    if 'printed' in r and any(k.startswith('NL_') for k in r):
        print('NL:', r['printed'][:400])
for l in open(g):
    r = json.loads(l)
    if 'VAR_index' in r and r.get('is_from_nl') and 'printed' in r:
        print('   ', r['printed'])
